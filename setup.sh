#!/bin/sh
# MANIFEST.setup_cmd: offline; makes sure /venv can import hypothesis, creates output directories.
set -e
cd "$(dirname "$0")"
if ! /venv/bin/python -c "import hypothesis" 2>/dev/null; then
    PIP_NO_INDEX=1 /venv/bin/pip install --no-index --find-links /opt/veriftools/wheels hypothesis
fi
/venv/bin/python -c "import hypothesis, sys; print('hypothesis', hypothesis.__version__, 'python', sys.version.split()[0])"
# optional: the byte-level fuzz part of C15 runs under the tooling interpreter (atheris); without it that part is skipped
(python3-vt -c "import atheris; print('atheris available')" 2>/dev/null) || echo "atheris not available: C15 fuzz part will be skipped"
mkdir -p evidence replays
chmod +x check
echo setup ok
