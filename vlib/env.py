"""Shared runner plumbing: repository location, seeds, tiers, sharding, scratch
directories, evidence, replays and known findings.

Everything here is deterministic given (VERIF_SEED, tier, repository tree).
"""
import contextlib
import hashlib
import io
import json
import multiprocessing
import os
import shutil
import sys
import tempfile
import time
import traceback

VERIF = os.path.dirname(os.path.dirname(os.path.abspath(__file__)))
REPO = os.path.abspath(os.environ.get('VERIF_REPO', '/repo'))
TMP = os.environ.get('VERIF_TMP', '/var/tmp')
NPROC = int(os.environ.get('VERIF_PROCS', '0')) or min(16, os.cpu_count() or 1)
# where evidence/ and replays/ are written (default /verif itself; sensitivity runs against scratch mutants redirect it)
OUT = os.path.abspath(os.environ.get('VERIF_OUT', VERIF))

EXIT_OK, EXIT_VIOLATION, EXIT_HARNESS = 0, 1, 2


class HarnessError(Exception):
    """The check machinery itself is broken (oracle self test, import) - exit 2, never VIOLATION."""


def seed_value():
    try:
        return int(os.environ.get('VERIF_SEED', '1'))
    except ValueError:
        return 1


def derive(seed, *parts):
    """Deterministic sub-seed for (seed, property, shard, ...)."""
    h = hashlib.sha256(('%d:' % seed + ':'.join(str(p) for p in parts)).encode()).digest()
    return int.from_bytes(h[:8], 'big')


def chash(obj):
    """Stable 64-bit hash of a case (for distinctness counting)."""
    if not isinstance(obj, (bytes, bytearray)):
        obj = repr(obj).encode('utf-8', 'surrogatepass')
    return hashlib.blake2b(obj, digest_size=8).digest()


_asm = None
_dfu = None


def load_asm():
    """Import bronzebeard.asm from REPO's working tree (never from a stale copy)."""
    global _asm
    if _asm is None:
        if REPO not in sys.path:
            sys.path.insert(0, REPO)
        for k in [k for k in sys.modules if k == 'bronzebeard' or k.startswith('bronzebeard.')]:
            del sys.modules[k]
        try:
            from bronzebeard import asm
        except Exception as e:  # a tree that does not import is not something we can judge
            raise HarnessError('cannot import bronzebeard.asm from %s: %r' % (REPO, e))
        got = os.path.realpath(asm.__file__)
        want = os.path.realpath(os.path.join(REPO, 'bronzebeard', 'asm.py'))
        if got != want:
            raise HarnessError('bronzebeard.asm imported from %s, expected %s' % (got, want))
        _asm = asm
    return _asm


def repo_python_env(extra=None):
    """Environment for subprocesses that must run REPO's code."""
    env = dict(os.environ)
    env['PYTHONPATH'] = REPO + (os.pathsep + env['PYTHONPATH'] if env.get('PYTHONPATH') else '')
    env.setdefault('PYTHONHASHSEED', '0')
    env['PYTHONDONTWRITEBYTECODE'] = '1'
    if extra:
        env.update(extra)
    return env


@contextlib.contextmanager
def scratch_dir(prefix='bbv-'):
    d = tempfile.mkdtemp(prefix=prefix, dir=TMP)
    try:
        yield d
    finally:
        shutil.rmtree(d, ignore_errors=True)


@contextlib.contextmanager
def cwd(path):
    old = os.getcwd()
    os.chdir(path)
    try:
        yield
    finally:
        os.chdir(old)


@contextlib.contextmanager
def quiet_stdio():
    """Capture stdout/stderr of in-process code under test."""
    out, err = io.StringIO(), io.StringIO()
    with contextlib.redirect_stdout(out), contextlib.redirect_stderr(err):
        yield out, err


# ---------------------------------------------------------------------------
# sharded execution

MEM_LIMIT = int(os.environ.get('VERIF_MEM_GB', '8')) << 30


def limit_memory():
    """Soft address-space limit for a worker: code under test that tries to build a gigantic output (an alignment misread as
    0xb1000000 ...) then fails with MemoryError - an ordinary refusal for the oracles - instead of getting the worker
    OOM-killed, which would leave the pool waiting for ever."""
    try:
        import resource
        soft, hard = resource.getrlimit(resource.RLIMIT_AS)
        if soft == resource.RLIM_INFINITY or soft > MEM_LIMIT:
            resource.setrlimit(resource.RLIMIT_AS, (MEM_LIMIT, hard))
    except Exception:
        pass


def unlimit_memory():
    """preexec_fn for children that need a large virtual address space (libFuzzer)."""
    try:
        import resource
        soft, hard = resource.getrlimit(resource.RLIMIT_AS)
        resource.setrlimit(resource.RLIMIT_AS, (hard, hard))
    except Exception:
        pass


def _shard_entry(args):
    fn, a = args
    limit_memory()
    try:
        return ('ok', fn(*a))
    except HarnessError as e:
        return ('harness', str(e))
    except BaseException:
        return ('crash', traceback.format_exc())


def run_shards(fn, arglist, procs=None):
    """Run fn(*args) for every args in arglist on a fork pool; returns results in order.

    A worker raising anything is a harness error: property failures are *returned*, not raised.
    """
    procs = procs or NPROC
    jobs = [(fn, a) for a in arglist]
    if procs <= 1:
        res = [_shard_entry(j) for j in jobs]
    else:
        # (ProcessPoolExecutor, not multiprocessing.Pool: a worker that dies - OOM kill, segfault - breaks the pool with an
        # exception instead of leaving map() waiting for ever.  Also used for a single job so that the memory limit never applies
        # to the parent.)
        import concurrent.futures
        from concurrent.futures.process import BrokenProcessPool
        ctx = multiprocessing.get_context('fork')
        try:
            with concurrent.futures.ProcessPoolExecutor(max_workers=max(1, min(procs, len(jobs))), mp_context=ctx) as pool:
                res = list(pool.map(_shard_entry, jobs, chunksize=1))
        except BrokenProcessPool as e:
            raise HarnessError('a worker process died (killed / crashed): %s' % (e,))
    out = []
    for tag, val in res:
        if tag == 'ok':
            out.append(val)
        elif tag == 'harness':
            raise HarnessError(val)
        else:
            raise HarnessError('worker crashed:\n' + val)
    return out


def run_optimized(module, func, args, prefix='optimized:'):
    """module.func(*args) -> Result, executed in a `python -O` child (assert statements stripped; a configuration users do run,
    PYTHONOPTIMIZE=1).  Failure signatures come back prefixed; cases are marked so that a replay runs under -O again."""
    import base64
    import pickle
    import subprocess
    blob = base64.b64encode(pickle.dumps((module, func, args))).decode()
    code = ('import sys,pickle,base64,importlib\n'
            'm,f,a=pickle.loads(base64.b64decode(sys.argv[1]))\n'
            'r=getattr(importlib.import_module(m),f)(*a)\n'
            'sys.stdout.write("OPTRESULT "+base64.b64encode(pickle.dumps((not __debug__, r))).decode()+"\\n")\n')
    p = subprocess.run([sys.executable, '-O', '-W', 'ignore', '-c', code, blob], cwd=VERIF, env=dict(os.environ, PYTHONDONTWRITEBYTECODE='1', PYTHONHASHSEED='0'),
                       stdout=subprocess.PIPE, stderr=subprocess.PIPE, timeout=3600)
    line = [ln for ln in p.stdout.decode('utf-8', 'replace').splitlines() if ln.startswith('OPTRESULT ')]
    if p.returncode != 0 or not line:
        raise HarnessError('python -O child %s.%s failed: rc=%d %s' % (module, func, p.returncode, p.stderr.decode('utf-8', 'replace')[-500:]))
    optimized, res = pickle.loads(base64.b64decode(line[0][len('OPTRESULT '):]))
    if not optimized:
        raise HarnessError('python -O child did not run optimized')
    for f in res.failures:
        f['sig'] = prefix + f['sig']
        f['what'] = 'under python -O: ' + f['what']
        if isinstance(f.get('case'), dict):
            f['case'] = dict(f['case'], optimize=True)
    res.count('evaluations_under_python_-O', res.evaluations)
    return res


# ---------------------------------------------------------------------------
# known findings

def load_known():
    path = os.path.join(VERIF, 'known_findings.json')
    if not os.path.exists(path):
        return []
    with open(path) as f:
        data = json.load(f)
    return data.get('findings', [])


# ---------------------------------------------------------------------------
# result accumulation shared by all checks

class Result:
    """Mergeable per-shard result."""

    def __init__(self):
        self.evaluations = 0
        self.nontrivial = set()      # 8-byte hashes of distinct non-trivial cases
        self.nontrivial_count = 0    # for enumerations that are distinct by construction
        self.samples = []
        self.classes = {}            # generator / outcome distribution counters
        self.failures = []           # dicts: {sig, what, case}
        self.known = {}              # finding id -> count
        self.notes = []

    def count(self, key, n=1):
        self.classes[key] = self.classes.get(key, 0) + n

    def nt(self, case_hash):
        self.nontrivial.add(case_hash)

    def sample(self, s, cap=6):
        if len(self.samples) < cap:
            self.samples.append(s)

    def fail(self, sig, what, case, cap=40):
        for f in self.failures:
            if f['sig'] == sig:
                f['n'] = f.get('n', 1) + 1
                # keep the smallest case per signature
                if len(json.dumps(case, default=repr)) < len(json.dumps(f['case'], default=repr)):
                    f['case'], f['what'] = case, what
                return
        if len(self.failures) < cap:
            self.failures.append({'sig': sig, 'what': what, 'case': case, 'n': 1})

    def merge(self, other):
        self.evaluations += other.evaluations
        self.nontrivial |= other.nontrivial
        self.nontrivial_count += other.nontrivial_count
        for s in other.samples:
            self.sample(s, cap=12)
        for k, v in other.classes.items():
            self.classes[k] = self.classes.get(k, 0) + v
        for f in other.failures:
            n = f.get('n', 1)
            self.fail(f['sig'], f['what'], f['case'])
            for g in self.failures:
                if g['sig'] == f['sig'] and g is not f and n > 1:
                    g['n'] = g.get('n', 1) + n - 1
        for k, v in other.known.items():
            self.known[k] = self.known.get(k, 0) + v
        self.notes.extend(other.notes)
        return self


def match_known(known, prop, sig, case=None):
    """Return the known finding whose signature matches, if any.

    A finding matches on property and on an exact signature string, or on a signature prefix when
    the entry says so with "sig_prefix".  Matching is deliberately narrow: a different violation of
    the same property has a different signature and is still reported.
    """
    for k in known:
        if k.get('property') != prop:
            continue
        if 'sig' in k and k['sig'] == sig:
            return k
        if 'sig_prefix' in k and sig.startswith(k['sig_prefix']):
            return k
    return None


class Check:
    """One run of one property check: collects a merged Result and finishes with evidence + exit code."""

    def __init__(self, prop, tier, level='exploration'):
        self.prop = prop
        self.tier = tier
        self.level = level
        self.seed = seed_value()
        self.t0 = time.time()
        self.res = Result()
        self.rule = ''
        self.exhaustive = None
        self.assumptions = []
        self.extra = {}
        self.known = load_known()

    def merge(self, results):
        for r in results:
            self.res.merge(r)

    def finish(self):
        res = self.res
        viol, known_hits = [], {}
        for f in res.failures:
            k = match_known(self.known, self.prop, f['sig'], f['case'])
            if k is not None:
                known_hits.setdefault(k['id'], [k, 0])[1] += f.get('n', 1)
            else:
                viol.append(f)
        for kid, n in res.known.items():
            k = next((x for x in self.known if x.get('id') == kid), None)
            if k is not None:
                known_hits.setdefault(kid, [k, 0])[1] += n
        # every listed finding of this property is announced, whether or not this run hit it
        for k in self.known:
            if k.get('property') == self.prop:
                hit = known_hits.get(k['id'], [k, 0])[1]
                print('KNOWN-FINDING: property=%s %s [%s; seen %d times in this run]'
                      % (self.prop, k.get('what', ''), k['id'], hit))
        replays = []
        os.makedirs(os.path.join(OUT, 'replays'), exist_ok=True)
        for f in viol:
            body = {'property': self.prop, 'sig': f['sig'], 'what': f['what'], 'case': f['case'],
                    'seed': self.seed, 'tier': self.tier}
            name = '%s-%s.json' % (self.prop, hashlib.sha256(
                json.dumps(body, sort_keys=True, default=repr).encode()).hexdigest()[:12])
            path = os.path.join(OUT, 'replays', name)
            with open(path, 'w') as fh:
                json.dump(body, fh, indent=1, sort_keys=True, default=repr)
            replays.append(path)
            print('VIOLATION property=%s replay=%s' % (self.prop, path))
            print('  signature: %s (seen %d times)' % (f['sig'], f.get('n', 1)))
            print('  ' + str(f['what'])[:600].replace('\n', '\n  '))
        nt = len(res.nontrivial) + res.nontrivial_count
        cov = {
            'evaluations': int(res.evaluations),
            'distinct_nontrivial': int(nt),
            'rule': self.rule,
            'samples': res.samples[:12] or ['(none)'],
            'classes': dict(sorted(res.classes.items())),
            'known_finding_hits': {k: v[1] for k, v in known_hits.items()},
        }
        if self.exhaustive is not None:
            cov['exhaustive'] = bool(self.exhaustive)
        if res.notes:
            cov['notes'] = res.notes[:20]
        cov.update(self.extra)
        ev = {
            'property_id': self.prop,
            'tier': self.tier,
            'seed': self.seed,
            'level': self.level,
            'coverage': cov,
            'assumptions': self.assumptions,
            'wall_s': round(time.time() - self.t0, 3),
            'violations': len(viol),
        }
        os.makedirs(os.path.join(OUT, 'evidence'), exist_ok=True)
        with open(os.path.join(OUT, 'evidence', self.prop + '.json'), 'w') as fh:
            json.dump(ev, fh, indent=1, default=repr)
        print('%s %s: %d evaluations, %d distinct non-trivial, %d violation signature(s), %.1fs'
              % (self.prop, self.tier, res.evaluations, nt, len(viol), time.time() - self.t0))
        if res.evaluations < 1 or nt < 2:
            raise HarnessError('%s explored nothing non-trivial (evaluations=%d, nontrivial=%d)'
                               % (self.prop, res.evaluations, nt))
        return EXIT_VIOLATION if viol else EXIT_OK


# ---------------------------------------------------------------------------
# Hypothesis glue

def hyp_settings(max_examples, shrink=True, stateful_steps=None):
    from hypothesis import settings, HealthCheck, Phase
    phases = [Phase.generate]
    if shrink:
        phases.append(Phase.shrink)
    kw = dict(max_examples=max_examples, database=None, deadline=None, derandomize=False,
              report_multiple_bugs=False, suppress_health_check=list(HealthCheck),
              phases=phases, print_blob=False)
    if stateful_steps is not None:
        kw['stateful_step_count'] = stateful_steps
    return settings(**kw)


class CaseFailure(Exception):
    """Raised inside a Hypothesis test body to make the example count as failing."""

    def __init__(self, sig, what, case):
        super().__init__(sig)
        self.sig, self.what, self.case = sig, what, case


def run_hypothesis(test_body, strategy, n, seedval, res, known, prop, shrink=True, max_rounds=6):
    """Drive test_body(case, res) over `strategy`.

    test_body returns None or raises CaseFailure.  Failures whose signature matches a known
    finding are counted and do not stop the search.  For an unknown failure Hypothesis shrinks
    (bounded), the minimal case is recorded, its signature is added to a run-local skip set and
    the search resumes so that several root causes are all found.
    """
    import hypothesis
    from hypothesis import given
    skip = set()
    state = {'last': None, 'count': True}
    remaining = n
    rounds = 0
    while remaining > 0 and rounds < max_rounds:
        rounds += 1
        state['last'] = None
        state['ran'] = 0

        def body(case):
            state['ran'] += 1
            try:
                test_body(case, res if state['count'] else Result())
            except CaseFailure as f:
                k = match_known(known, prop, f.sig, f.case)
                if k is not None:
                    if state['count']:
                        res.known[k['id']] = res.known.get(k['id'], 0) + 1
                    return
                if f.sig in skip:
                    return
                if state['last'] is not None and state['last'].sig != f.sig:
                    return  # while shrinking, stay on the signature first seen
                state['last'] = f
                state['count'] = False  # shrink replays must not inflate the counters
                raise

        wrapped = hypothesis.seed(derive(seedval, rounds))(
            hyp_settings(remaining, shrink=shrink)(given(strategy)(body)))
        try:
            wrapped()
            remaining = 0
        except CaseFailure:
            f = state['last']
            res.fail(f.sig, f.what, f.case)
            skip.add(f.sig)
            state['count'] = True
            remaining -= min(remaining, max(1, state['ran']))
        except HarnessError:
            raise
        except BaseException as e:
            # Hypothesis wraps failures it could not reproduce (code under test with leaking state) in Flaky /
            # exception groups: the recorded CaseFailure is still a genuine observation of a failing case
            f = state['last'] or find_case_failure(e)
            if f is None:
                raise HarnessError('hypothesis: %r' % (e,))
            res.fail(f.sig, f.what, f.case)
            res.notes.append('hypothesis could not reproduce a failure deterministically (%s): state leaks between cases?' % type(e).__name__)
            skip.add(f.sig)
            state['count'] = True
            remaining -= min(remaining, max(1, state['ran']))
    return res


def find_case_failure(e, depth=0):
    if isinstance(e, CaseFailure):
        return e
    if depth > 6 or e is None:
        return None
    for sub in getattr(e, 'exceptions', ()) or ():
        f = find_case_failure(sub, depth + 1)
        if f:
            return f
    return find_case_failure(e.__cause__, depth + 1) or find_case_failure(e.__context__, depth + 1)
