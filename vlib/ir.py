"""Program IR, own expression evaluator and renderer.

Programs are generated as IR and rendered to text, so the oracle knows what each line means without
parsing assembly.  Nothing here imports bronzebeard.
"""
import hashlib
import keyword

M32 = 0xffffffff

ABI = ['zero', 'ra', 'sp', 'gp', 'tp', 't0', 't1', 't2', 's0', 's1', 'a0', 'a1', 'a2', 'a3', 'a4', 'a5', 'a6', 'a7',
       's2', 's3', 's4', 's5', 's6', 's7', 's8', 's9', 's10', 's11', 't3', 't4', 't5', 't6']

RESERVED_WORDS = set(ABI) | {'fp'} | {'x%d' % i for i in range(32)} | {
    'align', 'string', 'pack', 'error', 'include', 'include_bytes', 'bytes', 'shorts', 'ints', 'longs',
    'longlongs', 'db', 'dh', 'dw', 'dd', 'nop', 'li', 'mv', 'not', 'neg', 'seqz', 'snez', 'sltz', 'sgtz', 'beqz',
    'bnez', 'blez', 'bgez', 'bltz', 'bgtz', 'bgt', 'ble', 'bgtu', 'bleu', 'j', 'jal', 'jr', 'jalr', 'ret', 'call',
    'tail', 'fence', 'lui', 'auipc', 'beq', 'bne', 'blt', 'bge', 'bltu', 'bgeu', 'lb', 'lh', 'lw', 'lbu', 'lhu',
    'sb', 'sh', 'sw', 'addi', 'slti', 'sltiu', 'xori', 'ori', 'andi', 'slli', 'srli', 'srai', 'add', 'sub', 'sll',
    'slt', 'sltu', 'xor', 'srl', 'sra', 'or', 'and', 'ecall', 'ebreak', 'csrrw', 'csrrs', 'csrrc', 'csrrwi',
    'csrrsi', 'csrrci', 'mul', 'mulh', 'mulhsu', 'mulhu', 'div', 'divu', 'rem', 'remu'}


def name_ok(name):
    return (name.isidentifier() and name.isascii() and not keyword.iskeyword(name)
            and name.lower() not in RESERVED_WORDS and name not in ('None', 'True', 'False', '__builtins__'))


# ---------------------------------------------------------------------------
# values

class V:
    label_dep = False
    const_dep = False

    def labels(self):
        return set()


class Lit(V):
    def __init__(self, value):
        self.value = int(value)

    def eval(self, ctx):
        return self.value

    def render(self, st):
        return st.integer(self.value)

    def key(self):
        return ('lit', self.value)


class ShamtReg(V):
    """A shift amount spelled as a register name (the field is parsed like a register, so `slli x8, x8, t0`
    is accepted and means a shift by 5)."""

    def __init__(self, n):
        self.n = n

    def eval(self, ctx):
        return self.n

    def render(self, st):
        return ABI[self.n] if st.pick(2, 'shamtreg') else 'x%d' % self.n

    def key(self):
        return ('shamtreg', self.n)


class CRef(V):
    const_dep = True

    def __init__(self, name):
        self.name = name

    def eval(self, ctx):
        return ctx.consts[self.name]

    def render(self, st):
        return self.name

    def key(self):
        return ('c', self.name)


class LRef(V):
    """A bare label name used as a value: the label's offset."""
    label_dep = True

    def __init__(self, name):
        self.name = name

    def eval(self, ctx):
        return ctx.labels[self.name]

    def render(self, st):
        return self.name

    def labels(self):
        return {self.name}

    def key(self):
        return ('l', self.name)


class Off(V):
    """%offset(L): L's offset minus the offset of the containing item."""
    label_dep = True

    def __init__(self, name, bare=False):
        self.name = name
        self.bare = bare  # rendered as the bare label name (branch / jump target slots)

    def eval(self, ctx):
        return ctx.labels[self.name] - ctx.pos

    def render(self, st):
        if self.bare:
            return self.name
        return '%offset(' + self.name + ')' if st.pick(2, 'offp') else '%offset ' + self.name

    def labels(self):
        return {self.name}

    def key(self):
        return ('off', self.name)


class OffC(Off):
    """%offset(K) with K an integer CONSTANT (an absolute address): K minus the offset of the containing item; as a bare name in
    the target slot of a jump / branch it sends control to the absolute address K.  Accepted by the implementation (%offset is
    looked up in constants and labels alike, and a bare name in a target slot is wrapped in %offset), documented only for
    labels; C05 already used it for call / tail to ROM-style absolute addresses.  The value depends on where the item ends up,
    so it is layout-dependent exactly like a label value (label_dep) although no label is involved."""
    label_dep = True
    const_dep = True

    def eval(self, ctx):
        return ctx.consts[self.name] - ctx.pos

    def labels(self):
        return set()

    def key(self):
        return ('offc', self.name)


class Pos(V):
    """%position(L, base)."""
    label_dep = True

    def __init__(self, name, base):
        self.name = name
        self.base = base
        self.const_dep = base.const_dep

    def eval(self, ctx):
        return self.base.eval(ctx) + ctx.labels[self.name]

    def render(self, st):
        sep = ', ' if st.pick(2, 'possep') else ' '
        if st.pick(4, 'posp') == 0 and not isinstance(self.base, (Bin, Un, Paren)):
            return '%position ' + self.name + ' ' + self.base.render(st)
        return '%position(' + self.name + sep + self.base.render(st) + ')'

    def labels(self):
        return {self.name} | self.base.labels()

    def key(self):
        return ('pos', self.name, self.base.key())


class PosC(V):
    """%position(K, base) with K an integer CONSTANT: K + base.  No label and no position involved: the value is final as soon as
    the constants are known (a literal-valued operand).  Accepted by the implementation like %offset(K)."""
    const_dep = True

    def __init__(self, name, base):
        self.name, self.base = name, base

    def eval(self, ctx):
        return ctx.consts[self.name] + self.base.eval(ctx)

    def render(self, st):
        return '%position(' + self.name + (', ' if st.pick(2, 'possep') else ' ') + self.base.render(st) + ')'

    def key(self):
        return ('posc', self.name, self.base.key())


class Hi(V):
    def __init__(self, v):
        self.v = v
        self.label_dep, self.const_dep = v.label_dep, v.const_dep

    def eval(self, ctx):
        x = self.v.eval(ctx) & M32
        return (((x + 0x800) >> 12) & 0xfffff) - (0x100000 if ((x + 0x800) >> 12) & 0x80000 else 0)

    def render(self, st):
        if st.pick(4, 'hip') == 0 and isinstance(self.v, (Lit, CRef, LRef, Pos, PosC, Off, Bin)):
            # the modifier without parentheses of its own takes the rest of the operand: %hi K + 4, %hi %position(L, K);
            # (an operand that starts with a parenthesis would be read as the parenthesised form)
            inner = self.v.render(st)
            if not inner.startswith('('):
                return '%hi ' + inner
            return '%hi(' + inner + ')'
        return '%hi(' + self.v.render(st) + ')'

    def labels(self):
        return self.v.labels()

    def key(self):
        return ('hi', self.v.key())


class Lo(V):
    def __init__(self, v):
        self.v = v
        self.label_dep, self.const_dep = v.label_dep, v.const_dep

    def eval(self, ctx):
        x = self.v.eval(ctx) & 0xfff
        return x - 0x1000 if x & 0x800 else x

    def render(self, st):
        if st.pick(4, 'lop') == 0 and isinstance(self.v, (Lit, CRef, LRef, Pos, PosC, Off, Bin)):
            # the modifier without parentheses of its own takes the rest of the operand: %lo K + 4, %lo %position(L, K);
            # (an operand that starts with a parenthesis would be read as the parenthesised form)
            inner = self.v.render(st)
            if not inner.startswith('('):
                return '%lo ' + inner
            return '%lo(' + inner + ')'
        return '%lo(' + self.v.render(st) + ')'

    def labels(self):
        return self.v.labels()

    def key(self):
        return ('lo', self.v.key())


BINOPS = {
    '+': lambda a, b: a + b, '-': lambda a, b: a - b, '*': lambda a, b: a * b,
    '//': lambda a, b: a // b, '%': lambda a, b: a % b,
    '<<': lambda a, b: a << b, '>>': lambda a, b: a >> b,
    '&': lambda a, b: a & b, '|': lambda a, b: a | b, '^': lambda a, b: a ^ b,
}
# python precedence, higher binds tighter
PREC = {'|': 1, '^': 2, '&': 3, '<<': 4, '>>': 4, '+': 5, '-': 5, '*': 6, '//': 6, '%': 6}


class Bin(V):
    def __init__(self, op, a, b):
        self.op, self.a, self.b = op, a, b
        self.label_dep = a.label_dep or b.label_dep
        self.const_dep = a.const_dep or b.const_dep

    def eval(self, ctx):
        return BINOPS[self.op](self.a.eval(ctx), self.b.eval(ctx))

    def render(self, st):
        def side(v, right):
            s = v.render(st)
            if isinstance(v, Bin) and (PREC[v.op] < PREC[self.op] or (right and PREC[v.op] == PREC[self.op])):
                return '(' + s + ')'
            if isinstance(v, Un) and right is False and False:
                return '(' + s + ')'
            if isinstance(v, Lit) and v.value < 0 and right:
                # (on the left no parentheses are needed - unary minus binds tighter than every binary operator - and an operand
                # that STARTS with a parenthesis is taken for the imm(reg) syntax by loads, stores and jalr)
                return '(' + s + ')'
            return s
        k = st.pick(6, 'binsp')
        # blanks on both sides, on neither, or (now and then) on one side only: `17 %10`, `K- 1`
        sp_l, sp_r = [('', ''), (' ', ''), ('', ' '), ('', ''), (' ', ' '), (' ', ' ')][k]      # (style 0 picks the last one)
        return side(self.a, False) + sp_l + self.op + sp_r + side(self.b, True)

    def labels(self):
        return self.a.labels() | self.b.labels()

    def key(self):
        return ('bin', self.op, self.a.key(), self.b.key())


class Un(V):
    def __init__(self, op, a):
        self.op, self.a = op, a
        self.label_dep, self.const_dep = a.label_dep, a.const_dep

    def eval(self, ctx):
        x = self.a.eval(ctx)
        return -x if self.op == '-' else ~x

    def render(self, st):
        s = self.a.render(st)
        if isinstance(self.a, Bin) or (isinstance(self.a, Lit) and self.a.value < 0) or isinstance(self.a, Un):
            s = '(' + s + ')'
        return self.op + s

    def labels(self):
        return self.a.labels()

    def key(self):
        return ('un', self.op, self.a.key())


class Paren(V):
    def __init__(self, a):
        self.a = a
        self.label_dep, self.const_dep = a.label_dep, a.const_dep

    def eval(self, ctx):
        return self.a.eval(ctx)

    def render(self, st):
        return '(' + self.a.render(st) + ')'

    def labels(self):
        return self.a.labels()

    def key(self):
        return ('par', self.a.key())


class Chr(V):
    """Character literal; only ever the whole value of a constant."""

    def __init__(self, ch, escaped=False):
        self.ch, self.escaped = ch, escaped

    def eval(self, ctx):
        return ord(self.ch)

    def render(self, st):
        if self.escaped:
            return "'\\" + self.ch + "'"
        return "'" + self.ch + "'"

    def key(self):
        return ('chr', self.ch, self.escaped)


def depth(v):
    if isinstance(v, Bin):
        return 1 + max(depth(v.a), depth(v.b))
    if isinstance(v, (Un, Paren, Hi, Lo)):
        return 1 + depth(v.a if not isinstance(v, (Hi, Lo)) else v.v)
    if isinstance(v, Pos):
        return 1 + depth(v.base)
    return 0


# ---------------------------------------------------------------------------
# registers

class Reg:
    def __init__(self, n, alias=None):
        self.n = n
        self.alias = alias  # name of a register-alias constant, or None

    def render(self, st):
        if self.alias:
            return self.alias
        return st.register(self.n)

    def key(self):
        return ('r', self.n, self.alias)


# ---------------------------------------------------------------------------
# items

class Item:
    kind = None
    size_fixed = None


class Label(Item):
    kind = 'label'

    def __init__(self, name):
        self.name = name

    def render(self, st):
        return self.name + ':'

    def key(self):
        return ('label', self.name)


class ConstDef(Item):
    kind = 'const'

    def __init__(self, name, value=None, reg=None):
        self.name, self.value, self.reg = name, value, reg

    def render(self, st):
        rhs = self.value.render(st) if self.reg is None else st.register(self.reg, named=True)
        return self.name + ' = ' + rhs

    def key(self):
        return ('const', self.name, self.value.key() if self.value is not None else ('reg', self.reg))


class Insn(Item):
    """A real (non-pseudo) instruction.  ops: canonical field name -> Reg | V | int (fence sets, aq/rl).
    For c.* mnemonics the fields are rvref's dec16 field names."""
    kind = 'insn'

    def __init__(self, mn, ops, baseoff=False):
        self.mn, self.ops, self.baseoff = mn, ops, baseoff

    def key(self):
        return ('insn', self.mn, tuple((k, v.key() if hasattr(v, 'key') else v) for k, v in sorted(self.ops.items())),
                self.baseoff)

    def render(self, st):
        from . import apimap
        mn, o = self.mn, self.ops
        names = apimap.api_fields(mn)

        def r(x):
            if isinstance(x, int):
                return st.integer(x)
            return x.render(st)

        if mn == 'lr.w' or (not mn.startswith('c.') and apimap.rvref.fmt_of(mn) == 'A'):
            parts = [r(o[n]) for n in names if n not in ('aq', 'rl')]
            if o.get('aq', 0) or o.get('rl', 0) or st.pick(3, 'aqrl') == 0:
                parts += [st.integer(o.get('aq', 0)), st.integer(o.get('rl', 0))]
            return st.line(mn, parts)
        bo = {'lb': ('rd', 'imm', 'rs1'), 'lh': ('rd', 'imm', 'rs1'), 'lw': ('rd', 'imm', 'rs1'),
              'lbu': ('rd', 'imm', 'rs1'), 'lhu': ('rd', 'imm', 'rs1'), 'jalr': ('rd', 'imm', 'rs1'),
              'sb': ('rs2', 'imm', 'rs1'), 'sh': ('rs2', 'imm', 'rs1'), 'sw': ('rs2', 'imm', 'rs1'),
              'c.lw': ('rd', 'imm', 'rs1'), 'c.sw': ('rs2', 'imm', 'rs1')}
        if mn in bo and st.baseoff(self):
            a, i, b = bo[mn]
            return st.line(mn, [r(o[a]), r(o[i]) + '(' + r(o[b]) + ')'])
        return st.line(mn, [r(o[n]) for n in names])


class Pseudo(Item):
    kind = 'pseudo'

    def __init__(self, name, ops):
        self.name, self.ops = name, ops  # ops: list of Reg | V | str(label name)

    def key(self):
        return ('pseudo', self.name, tuple(v.key() if hasattr(v, 'key') else v for v in self.ops))

    def render(self, st):
        return st.line(self.name, [x if isinstance(x, str) else x.render(st) for x in self.ops])


SEQ_WIDTH = {'bytes': 1, 'shorts': 2, 'ints': 4, 'longs': 4, 'longlongs': 8}
SHORT_WIDTH = {'db': 1, 'dh': 2, 'dw': 4, 'dd': 8}
PACK_WIDTH = {'b': 1, 'B': 1, 'h': 2, 'H': 2, 'i': 4, 'I': 4, 'l': 4, 'L': 4, 'q': 8, 'Q': 8}


class Seq(Item):
    kind = 'seq'

    def __init__(self, name, values):
        self.name, self.values = name, list(values)

    def key(self):
        return ('seq', self.name, tuple(self.values))

    def render(self, st):
        return st.line(self.name, [st.integer(v) for v in self.values])

    def size(self):
        return SEQ_WIDTH[self.name] * len(self.values)


class Short(Item):
    kind = 'short'

    def __init__(self, name, value):
        self.name, self.value = name, value

    def key(self):
        return ('short', self.name, self.value.key())

    def render(self, st):
        return st.line(self.name, [self.value.render(st)])

    def size(self):
        return SHORT_WIDTH[self.name]


class Pack(Item):
    kind = 'pack'

    def __init__(self, fmt, value):
        self.fmt, self.value = fmt, value

    def key(self):
        return ('pack', self.fmt, self.value.key())

    def render(self, st):
        return st.line('pack', [self.fmt, self.value.render(st)])

    def size(self):
        return PACK_WIDTH[self.fmt[1]]


class Str(Item):
    kind = 'str'

    def __init__(self, raw):
        self.raw = raw  # text exactly as written after "string "

    def key(self):
        return ('str', self.raw)

    def render(self, st):
        return st.indent() + 'string ' + self.raw

    def data(self):
        return unescape(self.raw).encode('utf-8')

    def size(self):
        return len(self.data())


class Gap(Item):
    """n filler bytes (rendered as one string line); n is a drawn integer."""
    kind = 'gap'

    def __init__(self, n, fill='.'):
        self.n, self.fill = n, fill

    def key(self):
        return ('gap', self.n)

    def render(self, st):
        return st.indent() + 'string ' + self.fill * self.n

    def data(self):
        return self.fill.encode() * self.n

    def size(self):
        return self.n


class Align(Item):
    kind = 'align'

    def __init__(self, n):
        self.n = n

    def key(self):
        return ('align', self.n)

    def render(self, st):
        return st.line('align', [st.integer(self.n)])


class IncludeBytes(Item):
    kind = 'incbytes'

    def __init__(self, fname, content):
        self.fname, self.content = fname, content

    def key(self):
        return ('incbytes', self.fname, hashlib.sha1(self.content).hexdigest())

    def render(self, st):
        return 'include_bytes ' + self.fname

    def data(self):
        return self.content

    def size(self):
        return len(self.content)


class Raw(Item):
    """A verbatim source line with no bytes of its own (comments, blank lines) - used by fault planting."""
    kind = 'raw'

    def __init__(self, text):
        self.text = text

    def key(self):
        return ('raw', self.text)

    def render(self, st):
        return self.text


# ---------------------------------------------------------------------------
# escape processing for `string` (own implementation of the documented backslash escapes)

_SIMPLE = {'n': '\n', 't': '\t', 'r': '\r', '\\': '\\', '"': '"', "'": "'", '0': '\0', 'a': '\a', 'b': '\b',
           'f': '\f', 'v': '\v'}


def unescape(raw):
    out = []
    i = 0
    n = len(raw)
    while i < n:
        c = raw[i]
        if c != '\\' or i + 1 >= n:
            out.append(c)
            i += 1
            continue
        d = raw[i + 1]
        if d == 'x' and i + 3 < n + 0 and all(ch in '0123456789abcdefABCDEF' for ch in raw[i + 2:i + 4]) and len(raw[i + 2:i + 4]) == 2:
            out.append(chr(int(raw[i + 2:i + 4], 16)))
            i += 4
        elif d == 'u' and len(raw[i + 2:i + 6]) == 4 and all(ch in '0123456789abcdefABCDEF' for ch in raw[i + 2:i + 6]):
            out.append(chr(int(raw[i + 2:i + 6], 16)))
            i += 6
        elif d in _SIMPLE:
            out.append(_SIMPLE[d])
            i += 2
        else:
            out.append(c)
            i += 1
    return ''.join(out)


# ---------------------------------------------------------------------------
# styles

class Style:
    """Rendering style.  seed 0 is the canonical style; any other seed makes every choice a pure
    function of (seed, line number, choice name, occurrence)."""

    SEPS = [', ', ' ', ',', '\t', ' , ', ',  ']
    INDENTS = ['', '  ', '    ', '\t', ' \t ']

    def __init__(self, seed=0, kinds=None):
        self.seed = seed
        self.kinds = kinds  # None = all rewrite kinds enabled (when seed != 0)
        self.lineno = 0
        self.occ = {}
        self.used = set()

    def on(self, kind):
        return self.seed != 0 and (self.kinds is None or kind in self.kinds)

    def pick(self, n, what):
        """Syntactic alternatives that are not one of C13's listed freedoms (e.g. %hi with or without
        parentheses) - these vary with the seed too but are not counted as rewrite kinds."""
        if self.seed == 0:
            return 1 if n == 2 else n - 1
        return self._h(n, what)

    def _h(self, n, what):
        k = self.occ.get((self.lineno, what), 0)
        self.occ[(self.lineno, what)] = k + 1
        d = hashlib.blake2b(('%d/%d/%s/%d' % (self.seed, self.lineno, what, k)).encode(), digest_size=4).digest()
        return int.from_bytes(d, 'big') % n

    def integer(self, v):
        if not self.on('intbase'):
            return str(v)
        k = self._h(4, 'int')
        if k:
            self.used.add('intbase')
        mag = abs(v)
        sign = '-' if v < 0 else ''
        if k == 1:
            return sign + ('0x%x' % mag if self._h(2, 'hexcase') else '0x%X' % mag)
        if k == 2 and mag < (1 << 40):
            return sign + bin(mag)
        return str(v)

    def register(self, n, named=False):
        if not self.on('reg'):
            return 'x%d' % n
        k = self._h(3 if not named else 2, 'reg')
        if k != 0:
            self.used.add('reg')
        if k == 0:
            return 'x%d' % n
        if k == 1:
            return 'fp' if (n == 8 and self._h(2, 'fp')) else ABI[n]
        return str(n)

    def baseoff(self, insn):
        # only single-token offsets may be written imm(reg)
        imm = insn.ops.get('imm')
        single = isinstance(imm, (Lit, CRef, LRef)) or isinstance(imm, int)
        if not single:
            return False
        if self.seed == 0 or not self.on('baseoff'):
            return insn.baseoff
        k = self._h(2, 'baseoff')
        if bool(k) != bool(insn.baseoff):
            self.used.add('baseoff')
        return bool(k)

    def indent(self):
        if not self.on('indent'):
            return ''
        k = self._h(len(self.INDENTS), 'indent')
        if k:
            self.used.add('indent')
        return self.INDENTS[k]

    def line(self, head, parts):
        if self.on('sep'):
            seps = []
            for _ in parts:
                k = self._h(len(self.SEPS), 'sep')
                if k:
                    self.used.add('sep')
                seps.append(self.SEPS[k])
        else:
            seps = [', '] * len(parts)
        s = self.indent() + head
        for i, p in enumerate(parts):
            s += (' ' if i == 0 else seps[i]) + p
        return s


NO_TRAILING_COMMENT = ('str', 'gap', 'incbytes', 'raw')
# comment texts: anything may follow the '#', in particular characters that mean something elsewhere on a line
WHOLE_COMMENTS = ['# note', '# x1, x2', '# string hello', '# L: addi', "# it's (paren", "#'quoted'", '#', '##', '#,', '# K = 5', '#:', '#\t tab',
                  '# error no', '#include x', '# 0x10 )', '#"dq"', "# '#'", '#=', '# C:\\chips\\gd32\\', '#\\', "# split on '\\s'", "#'\\x' '\\u'"]
TRAIL_COMMENTS = ['  # trailing', ' #x', '\t# a, b (c)', '#tight', " #'spin'", " # it's", ' ##', ' #,', ' # )', ' #(', ' # 1 + 2', ' #:', " #'", ' # = 4', ' # dir\\', ' #\\', " # '\\d' digits", " #'\\N'"]


def render(items, style=None):
    """Render IR items to source text; returns (text, line_of_item) with 1-based line numbers."""
    st = style or Style(0)
    lines = []
    line_of = []
    for it in items:
        st.lineno = len(lines) + 1
        if st.on('blank') and st._h(6, 'blank') == 0:
            st.used.add('blank')
            lines.append('' if st._h(2, 'blankws') else '   ')
        if st.on('comment') and st._h(7, 'wcomment') == 0:
            st.used.add('comment')
            lines.append(st.indent() + WHOLE_COMMENTS[st._h(len(WHOLE_COMMENTS), 'ctext')])
        st.lineno = len(lines) + 1
        text = it.render(st)
        if it.kind == 'label' or it.kind == 'const':
            text = st.indent() + text
        if st.on('comment') and it.kind not in NO_TRAILING_COMMENT and st._h(4, 'tcomment') == 0:
            st.used.add('comment')
            text += TRAIL_COMMENTS[st._h(len(TRAIL_COMMENTS), 'tctext')]
        lines.append(text)
        line_of.append(len(lines))
    return '\n'.join(lines) + '\n', line_of


class Ctx:
    def __init__(self, consts, labels, pos):
        self.consts, self.labels, self.pos = consts, labels, pos


def eval_consts(items):
    """Own sequential evaluation of constant definitions (registers aliases map to register numbers)."""
    consts = {}
    for it in items:
        if it.kind == 'const':
            if it.reg is not None:
                consts[it.name] = it.reg
            else:
                consts[it.name] = it.value.eval(Ctx(consts, {}, None))
    return consts


def program_key(items):
    return tuple(it.key() for it in items)
