"""Independent reference model of RV32IMAC + Zicsr + Zifencei.

Written from the RISC-V unprivileged specification (instruction listings of chapters 2, 7, 8, 9,
3 (Zifencei) and the RVC tables of chapter 16).  Nothing in here is derived from bronzebeard.

Canonical instruction tuple:  (mnemonic, {field: value})
    R      : rd rs1 rs2
    SHIFT  : rd rs1 shamt
    I/LOAD : rd rs1 imm              (imm signed 12 bit)
    JALR   : rd rs1 imm
    S      : rs1 rs2 imm             (rs1 = base, rs2 = source)
    B      : rs1 rs2 imm             (imm signed 13 bit, even)
    U      : rd imm                  (imm signed 20 bit: the value placed in bits 31:12)
    J      : rd imm                  (imm signed 21 bit, even)
    FENCE  : pred succ fm
    CSR    : rd rs1 csr              (rs1 is uimm for the *i forms)
    A      : rd rs1 rs2 aq rl        (lr.w: rs2 = 0)
    SYS    : (nothing)
"""

M32 = 0xffffffff


def sx(value, bits):
    value &= (1 << bits) - 1
    return value - (1 << bits) if value & (1 << (bits - 1)) else value


def bits(word, hi, lo):
    return (word >> lo) & ((1 << (hi - lo + 1)) - 1)


# mnemonic -> (format, opcode, funct3, funct7/funct5/other)
BASE = {}


def _add(fmt, opcode, entries):
    for e in entries:
        BASE[e[0]] = (fmt, opcode) + tuple(e[1:])


_add('R', 0x33, [('add', 0, 0x00), ('sub', 0, 0x20), ('sll', 1, 0x00), ('slt', 2, 0x00), ('sltu', 3, 0x00),
                 ('xor', 4, 0x00), ('srl', 5, 0x00), ('sra', 5, 0x20), ('or', 6, 0x00), ('and', 7, 0x00),
                 ('mul', 0, 0x01), ('mulh', 1, 0x01), ('mulhsu', 2, 0x01), ('mulhu', 3, 0x01),
                 ('div', 4, 0x01), ('divu', 5, 0x01), ('rem', 6, 0x01), ('remu', 7, 0x01)])
_add('SHIFT', 0x13, [('slli', 1, 0x00), ('srli', 5, 0x00), ('srai', 5, 0x20)])
_add('I', 0x13, [('addi', 0), ('slti', 2), ('sltiu', 3), ('xori', 4), ('ori', 6), ('andi', 7)])
_add('I', 0x03, [('lb', 0), ('lh', 1), ('lw', 2), ('lbu', 4), ('lhu', 5)])
_add('I', 0x67, [('jalr', 0)])
_add('S', 0x23, [('sb', 0), ('sh', 1), ('sw', 2)])
_add('B', 0x63, [('beq', 0), ('bne', 1), ('blt', 4), ('bge', 5), ('bltu', 6), ('bgeu', 7)])
_add('U', 0x37, [('lui',)])
_add('U', 0x17, [('auipc',)])
_add('J', 0x6f, [('jal',)])
_add('FENCE', 0x0f, [('fence', 0)])
_add('SYS', 0x0f, [('fence.i', 0x0000100f)])
_add('SYS', 0x73, [('ecall', 0x00000073), ('ebreak', 0x00100073)])
_add('CSR', 0x73, [('csrrw', 1), ('csrrs', 2), ('csrrc', 3), ('csrrwi', 5), ('csrrsi', 6), ('csrrci', 7)])
_add('A', 0x2f, [('lr.w', 2, 0x02), ('sc.w', 2, 0x03), ('amoswap.w', 2, 0x01), ('amoadd.w', 2, 0x00),
                 ('amoxor.w', 2, 0x04), ('amoand.w', 2, 0x0c), ('amoor.w', 2, 0x08), ('amomin.w', 2, 0x10),
                 ('amomax.w', 2, 0x14), ('amominu.w', 2, 0x18), ('amomaxu.w', 2, 0x1c)])

assert len(BASE) == 66, len(BASE)

LOADS = {'lb', 'lh', 'lw', 'lbu', 'lhu'}
STORES = {'sb', 'sh', 'sw'}
BRANCHES = {'beq', 'bne', 'blt', 'bge', 'bltu', 'bgeu'}

FIELDS = {
    'R': ('rd', 'rs1', 'rs2'), 'SHIFT': ('rd', 'rs1', 'shamt'), 'I': ('rd', 'rs1', 'imm'),
    'S': ('rs1', 'rs2', 'imm'), 'B': ('rs1', 'rs2', 'imm'), 'U': ('rd', 'imm'), 'J': ('rd', 'imm'),
    'FENCE': ('pred', 'succ', 'fm'), 'SYS': (), 'CSR': ('rd', 'rs1', 'csr'),
    'A': ('rd', 'rs1', 'rs2', 'aq', 'rl'),
}


def fmt_of(mn):
    return BASE[mn][0]


def _reg(v):
    if not (isinstance(v, int) and 0 <= v <= 31):
        raise ValueError('register %r' % (v,))
    return v


def _rng(v, lo, hi, mult=1):
    if not (isinstance(v, int) and lo <= v <= hi and v % mult == 0):
        raise ValueError('immediate %r not in [%d,%d] step %d' % (v, lo, hi, mult))
    return v


def enc32(mn, f):
    """Encode a canonical tuple; raises ValueError when a field is not representable."""
    e = BASE[mn]
    fmt, opc = e[0], e[1]
    if fmt == 'R':
        return opc | _reg(f['rd']) << 7 | e[2] << 12 | _reg(f['rs1']) << 15 | _reg(f['rs2']) << 20 | e[3] << 25
    if fmt == 'SHIFT':
        return opc | _reg(f['rd']) << 7 | e[2] << 12 | _reg(f['rs1']) << 15 | _rng(f['shamt'], 0, 31) << 20 | e[3] << 25
    if fmt == 'I':
        imm = _rng(f['imm'], -2048, 2047) & 0xfff
        return opc | _reg(f['rd']) << 7 | e[2] << 12 | _reg(f['rs1']) << 15 | imm << 20
    if fmt == 'S':
        imm = _rng(f['imm'], -2048, 2047) & 0xfff
        return (opc | (imm & 0x1f) << 7 | e[2] << 12 | _reg(f['rs1']) << 15 | _reg(f['rs2']) << 20
                | (imm >> 5) << 25)
    if fmt == 'B':
        imm = _rng(f['imm'], -4096, 4094, 2) & 0x1fff
        return (opc | bits(imm, 11, 11) << 7 | bits(imm, 4, 1) << 8 | e[2] << 12 | _reg(f['rs1']) << 15
                | _reg(f['rs2']) << 20 | bits(imm, 10, 5) << 25 | bits(imm, 12, 12) << 31)
    if fmt == 'U':
        imm = _rng(f['imm'], -(1 << 19), (1 << 19) - 1) & 0xfffff
        return opc | _reg(f['rd']) << 7 | imm << 12
    if fmt == 'J':
        imm = _rng(f['imm'], -(1 << 20), (1 << 20) - 2, 2) & 0x1fffff
        return (opc | _reg(f['rd']) << 7 | bits(imm, 19, 12) << 12 | bits(imm, 11, 11) << 20
                | bits(imm, 10, 1) << 21 | bits(imm, 20, 20) << 31)
    if fmt == 'FENCE':
        return (opc | e[2] << 12 | _rng(f['succ'], 0, 15) << 20 | _rng(f['pred'], 0, 15) << 24
                | _rng(f.get('fm', 0), 0, 15) << 28)
    if fmt == 'SYS':
        return e[2]
    if fmt == 'CSR':
        return opc | _reg(f['rd']) << 7 | e[2] << 12 | _reg(f['rs1']) << 15 | _rng(f['csr'], 0, 4095) << 20
    if fmt == 'A':
        return (opc | _reg(f['rd']) << 7 | e[2] << 12 | _reg(f['rs1']) << 15 | _reg(f['rs2']) << 20
                | _rng(f['rl'], 0, 1) << 25 | _rng(f['aq'], 0, 1) << 26 | e[3] << 27)
    raise AssertionError(fmt)


# decode tables built from BASE, keyed the way a decoder looks at a word
_DEC = {}
for _mn, _e in BASE.items():
    _fmt, _opc = _e[0], _e[1]
    if _fmt in ('R', 'SHIFT'):
        _DEC[(_opc, _e[2], _e[3])] = _mn
    elif _fmt in ('I', 'S', 'B', 'CSR', 'FENCE'):
        _DEC[(_opc, _e[2])] = _mn
    elif _fmt in ('U', 'J'):
        _DEC[(_opc,)] = _mn
    elif _fmt == 'A':
        _DEC[(_opc, _e[2], 'a', _e[3])] = _mn
    elif _fmt == 'SYS':
        _DEC[('word', _e[2])] = _mn


def dec32(w):
    """Decode a 32-bit word; returns (mnemonic, fields) or None if it is not an RV32IMA_Zicsr_Zifencei
    instruction (or has non-zero bits where the spec wants zero)."""
    if not (0 <= w <= M32) or (w & 3) != 3:
        return None
    if ('word', w) in _DEC:
        return (_DEC[('word', w)], {})
    opc = w & 0x7f
    rd, f3, rs1, rs2, f7 = bits(w, 11, 7), bits(w, 14, 12), bits(w, 19, 15), bits(w, 24, 20), bits(w, 31, 25)
    if opc == 0x33:
        mn = _DEC.get((opc, f3, f7))
        return (mn, {'rd': rd, 'rs1': rs1, 'rs2': rs2}) if mn else None
    if opc == 0x13 and f3 in (1, 5):
        mn = _DEC.get((opc, f3, f7))
        return (mn, {'rd': rd, 'rs1': rs1, 'shamt': rs2}) if mn else None
    if opc in (0x13, 0x03, 0x67):
        mn = _DEC.get((opc, f3))
        return (mn, {'rd': rd, 'rs1': rs1, 'imm': sx(w >> 20, 12)}) if mn else None
    if opc == 0x23:
        mn = _DEC.get((opc, f3))
        return (mn, {'rs1': rs1, 'rs2': rs2, 'imm': sx(f7 << 5 | rd, 12)}) if mn else None
    if opc == 0x63:
        mn = _DEC.get((opc, f3))
        imm = bits(w, 31, 31) << 12 | bits(w, 7, 7) << 11 | bits(w, 30, 25) << 5 | bits(w, 11, 8) << 1
        return (mn, {'rs1': rs1, 'rs2': rs2, 'imm': sx(imm, 13)}) if mn else None
    if opc in (0x37, 0x17):
        return (_DEC[(opc,)], {'rd': rd, 'imm': sx(w >> 12, 20)})
    if opc == 0x6f:
        imm = bits(w, 31, 31) << 20 | bits(w, 19, 12) << 12 | bits(w, 20, 20) << 11 | bits(w, 30, 21) << 1
        return ('jal', {'rd': rd, 'imm': sx(imm, 21)})
    if opc == 0x0f:
        if f3 == 0 and rd == 0 and rs1 == 0:
            return ('fence', {'pred': bits(w, 27, 24), 'succ': bits(w, 23, 20), 'fm': bits(w, 31, 28)})
        return None
    if opc == 0x73:
        mn = _DEC.get((opc, f3))
        return (mn, {'rd': rd, 'rs1': rs1, 'csr': w >> 20}) if mn else None
    if opc == 0x2f:
        mn = _DEC.get((opc, f3, 'a', bits(w, 31, 27)))
        if mn is None or (mn == 'lr.w' and rs2 != 0):
            return None
        return (mn, {'rd': rd, 'rs1': rs1, 'rs2': rs2, 'aq': bits(w, 26, 26), 'rl': bits(w, 25, 25)})
    return None


# ---------------------------------------------------------------------------
# RV32C

# classification of a halfword
LEGAL, HINT, RESERVED, FLOAT, ILLEGAL, NOT16 = 'legal', 'hint', 'reserved', 'float', 'illegal', 'not16'

C_MNEMONICS = ['c.addi4spn', 'c.lw', 'c.sw', 'c.nop', 'c.addi', 'c.jal', 'c.li', 'c.addi16sp', 'c.lui',
               'c.srli', 'c.srai', 'c.andi', 'c.sub', 'c.xor', 'c.or', 'c.and', 'c.j', 'c.beqz', 'c.bnez',
               'c.slli', 'c.lwsp', 'c.jr', 'c.mv', 'c.ebreak', 'c.jalr', 'c.add', 'c.swsp']
assert len(C_MNEMONICS) == 27


def _cj_imm(h):
    imm = (bits(h, 12, 12) << 11 | bits(h, 11, 11) << 4 | bits(h, 10, 9) << 8 | bits(h, 8, 8) << 10
           | bits(h, 7, 7) << 6 | bits(h, 6, 6) << 7 | bits(h, 5, 3) << 1 | bits(h, 2, 2) << 5)
    return sx(imm, 12)


def _cb_imm(h):
    imm = (bits(h, 12, 12) << 8 | bits(h, 11, 10) << 3 | bits(h, 6, 5) << 6 | bits(h, 4, 3) << 1
           | bits(h, 2, 2) << 5)
    return sx(imm, 9)


def dec16(h):
    """Classify and decode a halfword under RV32C (no F/D).

    Returns (cls, mnemonic, fields).  fields use full register numbers and the immediate as the
    assembly operand would state it (c.lui: the signed 6-bit value nzimm[17:12]).
    """
    if not (0 <= h <= 0xffff):
        raise ValueError(h)
    q = h & 3
    if q == 3:
        return (NOT16, None, None)
    f3 = bits(h, 15, 13)
    if h == 0:
        return (ILLEGAL, None, None)
    if q == 0:
        rdp, rs1p = 8 + bits(h, 4, 2), 8 + bits(h, 9, 7)
        if f3 == 0:
            imm = bits(h, 12, 11) << 4 | bits(h, 10, 7) << 6 | bits(h, 6, 6) << 2 | bits(h, 5, 5) << 3
            if imm == 0:
                return (RESERVED, None, None)
            return (LEGAL, 'c.addi4spn', {'rd': rdp, 'imm': imm})
        if f3 in (2, 6):
            imm = bits(h, 12, 10) << 3 | bits(h, 6, 6) << 2 | bits(h, 5, 5) << 6
            if f3 == 2:
                return (LEGAL, 'c.lw', {'rd': rdp, 'rs1': rs1p, 'imm': imm})
            return (LEGAL, 'c.sw', {'rs1': rs1p, 'rs2': rdp, 'imm': imm})
        if f3 == 4:
            return (RESERVED, None, None)
        return (FLOAT, None, None)
    if q == 1:
        rd = bits(h, 11, 7)
        imm6 = sx(bits(h, 12, 12) << 5 | bits(h, 6, 2), 6)
        if f3 == 0:
            if rd == 0:
                return (LEGAL, 'c.nop', {}) if imm6 == 0 else (HINT, 'c.nop', {'imm': imm6})
            return (LEGAL if imm6 != 0 else HINT, 'c.addi', {'rd_rs1': rd, 'imm': imm6})
        if f3 == 1:
            return (LEGAL, 'c.jal', {'imm': _cj_imm(h)})
        if f3 == 2:
            return (LEGAL if rd != 0 else HINT, 'c.li', {'rd_rs1': rd, 'imm': imm6})
        if f3 == 3:
            if rd == 2:
                imm = sx(bits(h, 12, 12) << 9 | bits(h, 6, 6) << 4 | bits(h, 5, 5) << 6 | bits(h, 4, 3) << 7
                         | bits(h, 2, 2) << 5, 10)
                if imm == 0:
                    return (RESERVED, None, None)
                return (LEGAL, 'c.addi16sp', {'imm': imm})
            if imm6 == 0:
                return (RESERVED, None, None)
            return (LEGAL if rd != 0 else HINT, 'c.lui', {'rd_rs1': rd, 'imm': imm6})
        if f3 == 4:
            rdp = 8 + bits(h, 9, 7)
            sel = bits(h, 11, 10)
            if sel in (0, 1):
                if bits(h, 12, 12):
                    return (RESERVED, None, None)  # RV32 NSE
                sh = bits(h, 6, 2)
                return (LEGAL if sh != 0 else HINT, 'c.srli' if sel == 0 else 'c.srai', {'rd_rs1': rdp, 'imm': sh})
            if sel == 2:
                return (LEGAL, 'c.andi', {'rd_rs1': rdp, 'imm': imm6})
            if bits(h, 12, 12):
                return (RESERVED, None, None)  # c.subw / c.addw are RV64, rest reserved
            mn = ('c.sub', 'c.xor', 'c.or', 'c.and')[bits(h, 6, 5)]
            return (LEGAL, mn, {'rd_rs1': rdp, 'rs2': 8 + bits(h, 4, 2)})
        if f3 == 5:
            return (LEGAL, 'c.j', {'imm': _cj_imm(h)})
        return (LEGAL, 'c.beqz' if f3 == 6 else 'c.bnez', {'rs1': 8 + bits(h, 9, 7), 'imm': _cb_imm(h)})
    # q == 2
    rd, rs2 = bits(h, 11, 7), bits(h, 6, 2)
    if f3 == 0:
        if bits(h, 12, 12):
            return (RESERVED, None, None)  # RV32 NSE
        return (LEGAL if (rd != 0 and rs2 != 0) else HINT, 'c.slli', {'rd_rs1': rd, 'imm': rs2})
    if f3 == 2:
        if rd == 0:
            return (RESERVED, None, None)
        imm = bits(h, 12, 12) << 5 | bits(h, 6, 4) << 2 | bits(h, 3, 2) << 6
        return (LEGAL, 'c.lwsp', {'rd_rs1': rd, 'imm': imm})
    if f3 == 4:
        if bits(h, 12, 12) == 0:
            if rs2 == 0:
                return (LEGAL, 'c.jr', {'rd_rs1': rd}) if rd != 0 else (RESERVED, None, None)
            return (LEGAL if rd != 0 else HINT, 'c.mv', {'rd_rs1': rd, 'rs2': rs2})
        if rs2 == 0:
            return (LEGAL, 'c.ebreak', {}) if rd == 0 else (LEGAL, 'c.jalr', {'rd_rs1': rd})
        return (LEGAL if rd != 0 else HINT, 'c.add', {'rd_rs1': rd, 'rs2': rs2})
    if f3 == 6:
        imm = bits(h, 12, 9) << 2 | bits(h, 8, 7) << 6
        return (LEGAL, 'c.swsp', {'rs2': rs2, 'imm': imm})
    return (FLOAT, None, None)


def _cr(v, prime=False):
    if prime:
        if not (isinstance(v, int) and 8 <= v <= 15):
            raise ValueError('rvc register %r' % (v,))
        return v - 8
    return _reg(v)


def enc16(mn, f):
    """Encode an RVC instruction from full register numbers / assembly immediates.

    Raises ValueError when the tuple is not a LEGAL (non-hint, non-reserved) RV32C instruction.
    """
    def ci(f3, q, rd, imm6):
        imm6 &= 0x3f
        return q | (imm6 & 0x1f) << 2 | rd << 7 | (imm6 >> 5) << 12 | f3 << 13

    def cj(f3, imm):
        imm = _rng(imm, -2048, 2046, 2) & 0xfff
        return (1 | bits(imm, 5, 5) << 2 | bits(imm, 3, 1) << 3 | bits(imm, 7, 7) << 6 | bits(imm, 6, 6) << 7
                | bits(imm, 10, 10) << 8 | bits(imm, 9, 8) << 9 | bits(imm, 4, 4) << 11
                | bits(imm, 11, 11) << 12 | f3 << 13)

    if mn == 'c.addi4spn':
        imm = _rng(f['imm'], 4, 1020, 4)
        return (0 | _cr(f['rd'], True) << 2 | bits(imm, 3, 3) << 5 | bits(imm, 2, 2) << 6 | bits(imm, 9, 6) << 7
                | bits(imm, 5, 4) << 11)
    if mn in ('c.lw', 'c.sw'):
        imm = _rng(f['imm'], 0, 124, 4)
        low = _cr(f['rd'] if mn == 'c.lw' else f['rs2'], True)
        return (0 | low << 2 | bits(imm, 6, 6) << 5 | bits(imm, 2, 2) << 6 | _cr(f['rs1'], True) << 7
                | bits(imm, 5, 3) << 10 | (2 if mn == 'c.lw' else 6) << 13)
    if mn == 'c.nop':
        return 0x0001
    if mn == 'c.addi':
        rd = _reg(f['rd_rs1'])
        imm = _rng(f['imm'], -32, 31)
        if rd == 0 or imm == 0:
            raise ValueError('c.addi rd/imm zero')
        return ci(0, 1, rd, imm)
    if mn == 'c.jal':
        return cj(1, f['imm'])
    if mn == 'c.j':
        return cj(5, f['imm'])
    if mn == 'c.li':
        rd = _reg(f['rd_rs1'])
        if rd == 0:
            raise ValueError('c.li rd zero')
        return ci(2, 1, rd, _rng(f['imm'], -32, 31))
    if mn == 'c.addi16sp':
        imm = _rng(f['imm'], -512, 496, 16)
        if imm == 0:
            raise ValueError('c.addi16sp zero')
        imm &= 0x3ff
        return (1 | bits(imm, 5, 5) << 2 | bits(imm, 8, 7) << 3 | bits(imm, 6, 6) << 5 | bits(imm, 4, 4) << 6
                | 2 << 7 | bits(imm, 9, 9) << 12 | 3 << 13)
    if mn == 'c.lui':
        rd = _reg(f['rd_rs1'])
        imm = _rng(f['imm'], -32, 31)
        if rd in (0, 2) or imm == 0:
            raise ValueError('c.lui rd/imm')
        return ci(3, 1, rd, imm)
    if mn in ('c.srli', 'c.srai'):
        sh = _rng(f['imm'], 1, 31)
        return (1 | sh << 2 | _cr(f['rd_rs1'], True) << 7 | (0 if mn == 'c.srli' else 1) << 10 | 4 << 13)
    if mn == 'c.andi':
        imm = _rng(f['imm'], -32, 31) & 0x3f
        return (1 | (imm & 0x1f) << 2 | _cr(f['rd_rs1'], True) << 7 | 2 << 10 | (imm >> 5) << 12 | 4 << 13)
    if mn in ('c.sub', 'c.xor', 'c.or', 'c.and'):
        k = ('c.sub', 'c.xor', 'c.or', 'c.and').index(mn)
        return (1 | _cr(f['rs2'], True) << 2 | k << 5 | _cr(f['rd_rs1'], True) << 7 | 3 << 10 | 4 << 13)
    if mn in ('c.beqz', 'c.bnez'):
        imm = _rng(f['imm'], -256, 254, 2) & 0x1ff
        return (1 | bits(imm, 5, 5) << 2 | bits(imm, 2, 1) << 3 | bits(imm, 7, 6) << 5 | _cr(f['rs1'], True) << 7
                | bits(imm, 4, 3) << 10 | bits(imm, 8, 8) << 12 | (6 if mn == 'c.beqz' else 7) << 13)
    if mn == 'c.slli':
        rd = _reg(f['rd_rs1'])
        sh = _rng(f['imm'], 1, 31)
        if rd == 0:
            raise ValueError('c.slli rd zero')
        return 2 | sh << 2 | rd << 7
    if mn == 'c.lwsp':
        rd = _reg(f['rd_rs1'])
        imm = _rng(f['imm'], 0, 252, 4)
        if rd == 0:
            raise ValueError('c.lwsp rd zero')
        return 2 | bits(imm, 7, 6) << 2 | bits(imm, 4, 2) << 4 | rd << 7 | bits(imm, 5, 5) << 12 | 2 << 13
    if mn == 'c.swsp':
        imm = _rng(f['imm'], 0, 252, 4)
        return 2 | _reg(f['rs2']) << 2 | bits(imm, 7, 6) << 7 | bits(imm, 5, 2) << 9 | 6 << 13
    if mn in ('c.jr', 'c.jalr'):
        rd = _reg(f['rd_rs1'])
        if rd == 0:
            raise ValueError('c.jr rs1 zero')
        return 2 | rd << 7 | (0 if mn == 'c.jr' else 1) << 12 | 4 << 13
    if mn in ('c.mv', 'c.add'):
        rd, rs2 = _reg(f['rd_rs1']), _reg(f['rs2'])
        if rd == 0 or rs2 == 0:
            raise ValueError('c.mv/c.add zero register')
        return 2 | rs2 << 2 | rd << 7 | (0 if mn == 'c.mv' else 1) << 12 | 4 << 13
    if mn == 'c.ebreak':
        return 0x9002
    raise ValueError('unknown rvc mnemonic %r' % (mn,))


def expand16(mn, f):
    """The base instruction an RVC instruction expands to (spec tables 16.5-16.7)."""
    if mn == 'c.addi4spn':
        return ('addi', {'rd': f['rd'], 'rs1': 2, 'imm': f['imm']})
    if mn == 'c.lw':
        return ('lw', {'rd': f['rd'], 'rs1': f['rs1'], 'imm': f['imm']})
    if mn == 'c.sw':
        return ('sw', {'rs1': f['rs1'], 'rs2': f['rs2'], 'imm': f['imm']})
    if mn == 'c.nop':
        return ('addi', {'rd': 0, 'rs1': 0, 'imm': f.get('imm', 0)})
    if mn == 'c.addi':
        return ('addi', {'rd': f['rd_rs1'], 'rs1': f['rd_rs1'], 'imm': f['imm']})
    if mn == 'c.jal':
        return ('jal', {'rd': 1, 'imm': f['imm']})
    if mn == 'c.j':
        return ('jal', {'rd': 0, 'imm': f['imm']})
    if mn == 'c.li':
        return ('addi', {'rd': f['rd_rs1'], 'rs1': 0, 'imm': f['imm']})
    if mn == 'c.addi16sp':
        return ('addi', {'rd': 2, 'rs1': 2, 'imm': f['imm']})
    if mn == 'c.lui':
        return ('lui', {'rd': f['rd_rs1'], 'imm': f['imm']})
    if mn in ('c.srli', 'c.srai', 'c.slli'):
        return (mn[2:], {'rd': f['rd_rs1'], 'rs1': f['rd_rs1'], 'shamt': f['imm']})
    if mn == 'c.andi':
        return ('andi', {'rd': f['rd_rs1'], 'rs1': f['rd_rs1'], 'imm': f['imm']})
    if mn in ('c.sub', 'c.xor', 'c.or', 'c.and'):
        return (mn[2:], {'rd': f['rd_rs1'], 'rs1': f['rd_rs1'], 'rs2': f['rs2']})
    if mn in ('c.beqz', 'c.bnez'):
        return ('beq' if mn == 'c.beqz' else 'bne', {'rs1': f['rs1'], 'rs2': 0, 'imm': f['imm']})
    if mn == 'c.lwsp':
        return ('lw', {'rd': f['rd_rs1'], 'rs1': 2, 'imm': f['imm']})
    if mn == 'c.swsp':
        return ('sw', {'rs1': 2, 'rs2': f['rs2'], 'imm': f['imm']})
    if mn == 'c.jr':
        return ('jalr', {'rd': 0, 'rs1': f['rd_rs1'], 'imm': 0})
    if mn == 'c.jalr':
        return ('jalr', {'rd': 1, 'rs1': f['rd_rs1'], 'imm': 0})
    if mn == 'c.mv':
        return ('add', {'rd': f['rd_rs1'], 'rs1': 0, 'rs2': f['rs2']})
    if mn == 'c.add':
        return ('add', {'rd': f['rd_rs1'], 'rs1': f['rd_rs1'], 'rs2': f['rs2']})
    if mn == 'c.ebreak':
        return ('ebreak', {})
    raise ValueError(mn)


# operand order of the assembly text of each c.* mnemonic (registers then immediate)
C_OPERANDS = {
    'c.addi4spn': ('rd', 'imm'), 'c.lw': ('rd', 'rs1', 'imm'), 'c.sw': ('rs1', 'rs2', 'imm'), 'c.nop': (),
    'c.addi': ('rd_rs1', 'imm'), 'c.jal': ('imm',), 'c.li': ('rd_rs1', 'imm'), 'c.addi16sp': ('imm',),
    'c.lui': ('rd_rs1', 'imm'), 'c.srli': ('rd_rs1', 'imm'), 'c.srai': ('rd_rs1', 'imm'),
    'c.andi': ('rd_rs1', 'imm'), 'c.sub': ('rd_rs1', 'rs2'), 'c.xor': ('rd_rs1', 'rs2'),
    'c.or': ('rd_rs1', 'rs2'), 'c.and': ('rd_rs1', 'rs2'), 'c.j': ('imm',), 'c.beqz': ('rs1', 'imm'),
    'c.bnez': ('rs1', 'imm'), 'c.slli': ('rd_rs1', 'imm'), 'c.lwsp': ('rd_rs1', 'imm'), 'c.jr': ('rd_rs1',),
    'c.mv': ('rd_rs1', 'rs2'), 'c.ebreak': (), 'c.jalr': ('rd_rs1',), 'c.add': ('rd_rs1', 'rs2'),
    'c.swsp': ('rs2', 'imm'),
}

# legal operand sets per c.* mnemonic (used by the boundary probes): field -> predicate description
C_IMM_RANGE = {
    'c.addi4spn': (4, 1020, 4), 'c.lw': (0, 124, 4), 'c.sw': (0, 124, 4), 'c.addi': (-32, 31, 1),
    'c.jal': (-2048, 2046, 2), 'c.li': (-32, 31, 1), 'c.addi16sp': (-512, 496, 16), 'c.lui': (-32, 31, 1),
    'c.srli': (1, 31, 1), 'c.srai': (1, 31, 1), 'c.andi': (-32, 31, 1), 'c.j': (-2048, 2046, 2),
    'c.beqz': (-256, 254, 2), 'c.bnez': (-256, 254, 2), 'c.slli': (1, 31, 1), 'c.lwsp': (0, 252, 4),
    'c.swsp': (0, 252, 4),
}


def legal_c(mn, f):
    try:
        enc16(mn, f)
        return True
    except (ValueError, KeyError):
        return False


def decode_at(buf, off):
    """Decode the instruction at buf[off:].  Returns (length, kind, mnemonic, fields, base) where base is
    the (mnemonic, fields) of the equivalent 32-bit instruction, or None when undecodable."""
    if off + 2 > len(buf):
        return (0, 'short', None, None, None)
    h = buf[off] | buf[off + 1] << 8
    if (h & 3) != 3:
        cls, mn, f = dec16(h)
        base = expand16(mn, f) if cls in (LEGAL, HINT) else None
        return (2, cls, mn, f, base)
    if off + 4 > len(buf):
        return (0, 'short', None, None, None)
    w = h | buf[off + 2] << 16 | buf[off + 3] << 24
    d = dec32(w)
    if d is None:
        return (4, 'unknown32', None, None, None)
    return (4, 'base', d[0], d[1], d)


# ---------------------------------------------------------------------------
# single-step semantics (RV32IM + control flow; everything else as opaque events)

def _tok(*parts):
    """Deterministic 32-bit token standing for a value the model does not compute (loaded data, CSR
    contents ...): equal inputs give equal tokens, so two instructions with the same effect agree."""
    import hashlib
    return int.from_bytes(hashlib.blake2b(repr(parts).encode(), digest_size=4).digest(), 'big')


def step(regs, pc, insn, length):
    """Execute one base instruction.  regs: list of 32 unsigned ints (regs[0] == 0).

    Returns (new_regs, next_pc, events).  Memory / system effects are recorded as events.
    """
    mn, f = insn
    r = list(regs)
    ev = []
    nxt = (pc + length) & M32

    def wr(rd, v):
        if rd != 0:
            r[rd] = v & M32

    fmt = BASE[mn][0]
    if fmt == 'R':
        a, b = r[f['rs1']], r[f['rs2']]
        sa, sb = sx(a, 32), sx(b, 32)
        if mn == 'add': v = a + b
        elif mn == 'sub': v = a - b
        elif mn == 'sll': v = a << (b & 31)
        elif mn == 'slt': v = int(sa < sb)
        elif mn == 'sltu': v = int(a < b)
        elif mn == 'xor': v = a ^ b
        elif mn == 'srl': v = a >> (b & 31)
        elif mn == 'sra': v = sa >> (b & 31)
        elif mn == 'or': v = a | b
        elif mn == 'and': v = a & b
        elif mn == 'mul': v = sa * sb
        elif mn == 'mulh': v = (sa * sb) >> 32
        elif mn == 'mulhsu': v = (sa * b) >> 32
        elif mn == 'mulhu': v = (a * b) >> 32
        elif mn == 'div':
            v = -1 if b == 0 else (sa if (sa == -2**31 and sb == -1) else int(abs(sa) // abs(sb)) * (1 if (sa < 0) == (sb < 0) else -1))
        elif mn == 'divu': v = M32 if b == 0 else a // b
        elif mn == 'rem':
            v = sa if b == 0 else (0 if (sa == -2**31 and sb == -1) else (abs(sa) % abs(sb)) * (-1 if sa < 0 else 1))
        elif mn == 'remu': v = a if b == 0 else a % b
        wr(f['rd'], v)
    elif fmt == 'SHIFT':
        a = r[f['rs1']]
        sh = f['shamt']
        v = a << sh if mn == 'slli' else (a >> sh if mn == 'srli' else sx(a, 32) >> sh)
        wr(f['rd'], v)
    elif fmt == 'I' and mn in LOADS:
        addr = (r[f['rs1']] + f['imm']) & M32
        ev.append(('load', mn, addr))
        wr(f['rd'], _tok('load', mn, addr))
    elif mn == 'jalr':
        target = (r[f['rs1']] + f['imm']) & M32 & ~1
        wr(f['rd'], nxt)
        nxt = target
    elif fmt == 'I':
        a, imm = r[f['rs1']], f['imm']
        if mn == 'addi': v = a + imm
        elif mn == 'slti': v = int(sx(a, 32) < imm)
        elif mn == 'sltiu': v = int(a < (imm & M32))
        elif mn == 'xori': v = a ^ (imm & M32)
        elif mn == 'ori': v = a | (imm & M32)
        elif mn == 'andi': v = a & (imm & M32)
        wr(f['rd'], v)
    elif fmt == 'S':
        addr = (r[f['rs1']] + f['imm']) & M32
        width = {'sb': 8, 'sh': 16, 'sw': 32}[mn]
        ev.append(('store', mn, addr, r[f['rs2']] & ((1 << width) - 1)))
    elif fmt == 'B':
        a, b = r[f['rs1']], r[f['rs2']]
        sa, sb = sx(a, 32), sx(b, 32)
        taken = {'beq': a == b, 'bne': a != b, 'blt': sa < sb, 'bge': sa >= sb, 'bltu': a < b, 'bgeu': a >= b}[mn]
        if taken:
            nxt = (pc + f['imm']) & M32
    elif mn == 'lui':
        wr(f['rd'], f['imm'] << 12)
    elif mn == 'auipc':
        wr(f['rd'], pc + (f['imm'] << 12))
    elif mn == 'jal':
        wr(f['rd'], nxt)
        nxt = (pc + f['imm']) & M32
    elif fmt == 'FENCE':
        ev.append(('fence', f['pred'], f['succ'], f['fm']))
    elif fmt == 'SYS':
        ev.append((mn,))
    elif fmt == 'CSR':
        src = r[f['rs1']] if mn in ('csrrw', 'csrrs', 'csrrc') else f['rs1']
        ev.append(('csr', mn, f['csr'], src, f['rs1'] if mn in ('csrrw', 'csrrs', 'csrrc') else None,
                   f['rd'] == 0))
        wr(f['rd'], _tok('csr', f['csr']))
    elif fmt == 'A':
        addr = r[f['rs1']]
        ev.append(('amo', mn, addr, r[f['rs2']] if mn != 'lr.w' else None, f['aq'], f['rl']))
        wr(f['rd'], _tok('amo', mn, addr))
    else:
        raise AssertionError(mn)
    return r, nxt, ev


PROBE_VALUES = [0, 1, 2, 0xffffffff, 0x7fffffff, 0x80000000, 0x80000001, 31, 32, 0x7ff, 0x800, 0xfff,
                0x1000, 0xfffff000, 0x12345678, 0xdeadbeef, 0x55555555, 0xaaaaaaaa, 0x00010000, 0xffff0000]


def probe_regfiles(n=24, salt=0):
    """A fixed family of register files: every register gets a distinct, deterministic value drawn
    from boundary values and hashes, x0 always 0."""
    files = []
    for k in range(n):
        regs = [0] * 32
        for i in range(1, 32):
            if k < len(PROBE_VALUES):
                regs[i] = PROBE_VALUES[(k + i * 7) % len(PROBE_VALUES)] if (i + k) % 3 else _tok('r', k, i, salt)
            else:
                regs[i] = _tok('r', k, i, salt)
        files.append(regs)
    # a few files where all registers are equal / zero to force branch outcomes
    files.append([0] * 32)
    files.append([0] + [1] * 31)
    files.append([0] + [M32] * 31)
    files.append([0] + [0x80000000] * 31)
    return files


_REGFILES = probe_regfiles()


def same_effect(a, alen, b, blen, pc=0x1000, check_next=True):
    """True when base instructions a and b have the same architectural effect on the probe register
    files.  When the two lengths differ only effects relative to the instruction's own end are
    compared (fall-through pc and link value are 'pc + own length')."""
    for regs in _REGFILES:
        ra, na, ea = step(regs, pc, a, alen)
        rb, nb, eb = step(regs, pc, b, blen)
        if ea != eb:
            return False
        fa, fb = pc + alen, pc + blen
        # normalise link values and fall-through to be relative to the own end
        la = [(v - fa) & M32 if (v == fa and i != 0) else v for i, v in enumerate(ra)]
        lb = [(v - fb) & M32 if (v == fb and i != 0) else v for i, v in enumerate(rb)]
        if alen == blen:
            if ra != rb or (check_next and na != nb):
                return False
        else:
            if la != lb:
                return False
            if check_next and ((na == fa) != (nb == fb) or (na != fa and na != nb)):
                return False
    return True


def selftest():
    """Oracle self-consistency; raises AssertionError (callers turn it into a harness error)."""
    import itertools
    # enc32 / dec32 round trip on a structured sample
    regs = [0, 1, 2, 5, 8, 15, 16, 31]
    for mn, e in BASE.items():
        fmt = e[0]
        if fmt == 'R':
            cases = [{'rd': a, 'rs1': b, 'rs2': c} for a, b, c in itertools.product(regs, repeat=3)]
        elif fmt == 'SHIFT':
            cases = [{'rd': a, 'rs1': b, 'shamt': c} for a, b in itertools.product(regs, repeat=2) for c in (0, 1, 13, 31)]
        elif fmt == 'I':
            cases = [{'rd': a, 'rs1': b, 'imm': c} for a, b in itertools.product(regs, repeat=2)
                     for c in (-2048, -1365, -1, 0, 1, 1365, 2047)]
        elif fmt == 'S':
            cases = [{'rs1': a, 'rs2': b, 'imm': c} for a, b in itertools.product(regs, repeat=2)
                     for c in (-2048, -1365, -33, -1, 0, 31, 32, 1365, 2047)]
        elif fmt == 'B':
            cases = [{'rs1': a, 'rs2': b, 'imm': c} for a, b in itertools.product(regs, repeat=2)
                     for c in (-4096, -2730, -2, 0, 2, 30, 32, 2046, 2048, 2730, 4094)]
        elif fmt == 'U':
            cases = [{'rd': a, 'imm': c} for a in regs for c in (-524288, -1, 0, 1, 0x55555, -0x55556, 524287)]
        elif fmt == 'J':
            cases = [{'rd': a, 'imm': c} for a in regs
                     for c in (-1048576, -2, 0, 2, 2046, 2048, 4094, 4096, 0xaaaaa, -0xaaaaa - 2 + 0, 1048574)]
        elif fmt == 'FENCE':
            cases = [{'pred': a, 'succ': b, 'fm': c} for a in range(16) for b in range(16) for c in (0, 8)]
        elif fmt == 'SYS':
            cases = [{}]
        elif fmt == 'CSR':
            cases = [{'rd': a, 'rs1': b, 'csr': c} for a, b in itertools.product(regs, repeat=2)
                     for c in (0, 1, 0x300, 0x7ff, 0x800, 0xc00, 0xfff)]
        elif fmt == 'A':
            cases = [{'rd': a, 'rs1': b, 'rs2': (0 if mn == 'lr.w' else c), 'aq': q, 'rl': l}
                     for a, b, c in itertools.product(regs, repeat=3) for q in (0, 1) for l in (0, 1)]
        for f in cases:
            w = enc32(mn, f)
            d = dec32(w)
            want = dict(f)
            if fmt == 'FENCE':
                want.setdefault('fm', 0)
            assert d == (mn, want), (mn, f, hex(w), d)
    # a few words known from the specification / common toolchains
    known = {0x00000013: ('addi', {'rd': 0, 'rs1': 0, 'imm': 0}), 0x00008067: ('jalr', {'rd': 0, 'rs1': 1, 'imm': 0}),
             0x0ff0000f: ('fence', {'pred': 15, 'succ': 15, 'fm': 0}), 0x00000073: ('ecall', {}),
             0x00100073: ('ebreak', {}), 0x0000100f: ('fence.i', {}),
             0xfe000ee3: ('beq', {'rs1': 0, 'rs2': 0, 'imm': -4}),
             0x0000006f: ('jal', {'rd': 0, 'imm': 0}), 0xffdff06f: ('jal', {'rd': 0, 'imm': -4}),
             0x02a00513: ('addi', {'rd': 10, 'rs1': 0, 'imm': 42}),
             0x00112623: ('sw', {'rs1': 2, 'rs2': 1, 'imm': 12}),
             0x30529073: ('csrrw', {'rd': 0, 'rs1': 5, 'csr': 0x305}),
             0x02b50533: ('mul', {'rd': 10, 'rs1': 10, 'rs2': 11}),
             0x1005a52f: ('lr.w', {'rd': 10, 'rs1': 11, 'rs2': 0, 'aq': 0, 'rl': 0}),
             0x12345537: ('lui', {'rd': 10, 'imm': 0x12345})}
    for w, t in known.items():
        assert dec32(w) == t, (hex(w), dec32(w), t)
        assert enc32(*t) == w, (hex(w), hex(enc32(*t)))
    # RVC: the 16-bit space
    counts = {}
    legal = 0
    for h in range(0x10000):
        cls, mn, f = dec16(h)
        counts[cls] = counts.get(cls, 0) + 1
        if cls == LEGAL:
            legal += 1
            assert enc16(mn, f) == h, (hex(h), mn, f, hex(enc16(mn, f)))
            expand16(mn, f)
    assert legal == 28461, legal
    assert counts[NOT16] == 16384
    knownc = {0x0001: ('c.nop', {}), 0x9002: ('c.ebreak', {}), 0x8082: ('c.jr', {'rd_rs1': 1}),
              0x4501: ('c.li', {'rd_rs1': 10, 'imm': 0}), 0x852e: ('c.mv', {'rd_rs1': 10, 'rs2': 11}),
              0x1141: ('c.addi', {'rd_rs1': 2, 'imm': -16}), 0xc606: ('c.swsp', {'rs2': 1, 'imm': 12}),
              0x40b2: ('c.lwsp', {'rd_rs1': 1, 'imm': 12}), 0x0141: ('c.addi', {'rd_rs1': 2, 'imm': 16}),
              0xa001: ('c.j', {'imm': 0}), 0x6105: ('c.addi16sp', {'imm': 32}),
              0x0800: ('c.addi4spn', {'rd': 8, 'imm': 16}), 0x4398: ('c.lw', {'rd': 14, 'rs1': 15, 'imm': 0}),
              0xc398: ('c.sw', {'rs1': 15, 'rs2': 14, 'imm': 0}), 0xdfed: ('c.beqz', {'rs1': 15, 'imm': -2 + 0})}
    for h, (mn, f) in knownc.items():
        if mn == 'c.beqz':
            continue
        cls, m2, f2 = dec16(h)
        assert (cls, m2, f2) == (LEGAL, mn, f), (hex(h), cls, m2, f2)
    return {'legal16': legal, 'classes16': counts}
