"""How bronzebeard's documented operand order maps onto rvref's canonical field names.

Taken from docs/instruction_reference.rst (e.g. `sb rs1, rs2, imm`, `fence succ, pred`,
`csrrw rd, rs1, csr`, atomics `rd, rs1, rs2 [aq rl]`), not from the encoder code.
"""
from . import rvref

API_FIELDS = {
    'R': ('rd', 'rs1', 'rs2'), 'SHIFT': ('rd', 'rs1', 'shamt'), 'I': ('rd', 'rs1', 'imm'),
    'S': ('rs1', 'rs2', 'imm'), 'B': ('rs1', 'rs2', 'imm'), 'U': ('rd', 'imm'), 'J': ('rd', 'imm'),
    'FENCE': ('succ', 'pred'), 'SYS': (), 'CSR': ('rd', 'rs1', 'csr'), 'A': ('rd', 'rs1', 'rs2', 'aq', 'rl'),
}


def api_fields(mn):
    if mn == 'lr.w':
        return ('rd', 'rs1', 'aq', 'rl')
    if mn.startswith('c.'):
        return rvref.C_OPERANDS[mn]
    return API_FIELDS[rvref.fmt_of(mn)]


def call_encoder(asm, mn, fields):
    """Call asm.INSTRUCTIONS[mn] the way resolve_instructions does."""
    names = api_fields(mn)
    vals = [fields[n] for n in names]
    fn = asm.INSTRUCTIONS[mn]
    if not mn.startswith('c.') and rvref.fmt_of(mn) == 'A':
        *args, aq, rl = vals
        return fn(*args, aq=aq, rl=rl)
    return fn(*vals)


def canonical(mn, fields):
    """Canonical rvref tuple for API-level fields."""
    f = dict(fields)
    if mn == 'lr.w':
        f['rs2'] = 0
    if mn == 'fence':
        f.setdefault('fm', 0)
    return (mn, f)
