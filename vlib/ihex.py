"""Own Intel HEX reader (record types 00 data, 01 EOF, 02 extended segment address, 04 extended linear
address; 03 / 05 start addresses are accepted and ignored)."""


class IhexError(Exception):
    pass


def parse(text):
    """Returns {address: byte}.  Raises IhexError on malformed records / checksums."""
    mem = {}
    base = 0
    eof = False
    for n, line in enumerate(text.splitlines(), start=1):
        line = line.strip()
        if not line:
            continue
        if eof:
            raise IhexError('record after EOF on line %d' % n)
        if not line.startswith(':'):
            raise IhexError('line %d does not start with a colon' % n)
        try:
            raw = bytes.fromhex(line[1:])
        except ValueError:
            raise IhexError('line %d is not hex' % n)
        if len(raw) < 5 or len(raw) != raw[0] + 5:
            raise IhexError('line %d has a wrong length' % n)
        if sum(raw) & 0xff:
            raise IhexError('line %d has a bad checksum' % n)
        count, addr, typ, data = raw[0], raw[1] << 8 | raw[2], raw[3], raw[4:-1]
        if typ == 0:
            for i, b in enumerate(data):
                a = base + ((addr + i) & 0xffff if base_is_segment(base, None) else addr + i)
                if a in mem:
                    raise IhexError('address 0x%x written twice' % a)
                mem[a] = b
        elif typ == 1:
            eof = True
        elif typ == 2:
            if count != 2:
                raise IhexError('bad type 02 record on line %d' % n)
            base = (data[0] << 8 | data[1]) << 4
        elif typ == 4:
            if count != 2:
                raise IhexError('bad type 04 record on line %d' % n)
            base = (data[0] << 8 | data[1]) << 16
        elif typ in (3, 5):
            pass
        else:
            raise IhexError('unknown record type %d on line %d' % (typ, n))
    if not eof:
        raise IhexError('no EOF record')
    return mem


def base_is_segment(base, _):
    return False


def image(mem):
    """(lowest address, contiguous bytes) or raises IhexError when the data has holes."""
    if not mem:
        return (None, b'')
    lo, hi = min(mem), max(mem)
    if hi - lo + 1 != len(mem):
        raise IhexError('data is not contiguous')
    return lo, bytes(mem[a] for a in range(lo, hi + 1))
