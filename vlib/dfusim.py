"""Simulated DfuSe device (DFU 1.1 state machine + ST/GD DfuSe in-band commands) with a virtual clock the
harness owns.  Injected into bronzebeard.dfu as its `usb` and `time` modules."""
import struct

IDLE, DNLOAD_SYNC, DNBUSY, DNLOAD_IDLE, ERROR = 2, 3, 4, 5, 10
FLASH_BASE = 0x08000000
PAGE = 1024
SIZE_LETTER = {128: 'B', 64: '8', 32: '6', 16: '4'}


class FakeUSBError(Exception):
    """Stands in for usb.core.USBError (a stalled control transfer)."""


class Clock:
    def __init__(self):
        self.now = 0.0
        self.sleeps = []

    def sleep(self, seconds):
        self.sleeps.append(seconds)
        if seconds > 0:
            self.now += seconds

    def time(self):
        return self.now


def filler(page):
    return bytes(((page * 37 + i * 11 + 5) % 251) + 2 if (i % 7) else 0xa5 for i in range(PAGE))


class Device:
    """schedule: dict with
         busy[(kind, k)]   -> list of poll delays (ms) answered with dfuDNBUSY before the operation is done
         idle_delay[(kind, k)] -> poll delay (ms) requested on the final, non-busy answer
         start_error       -> initial status if the device starts in dfuERROR (else None)
         inject[(kind, k)] -> (status, behaviour)  behaviour 'spec' | 'lenient'
       kind in 'erase' | 'addr' | 'write'; k = index of that operation in the run."""

    def __init__(self, page_count, clock, schedule):
        self.page_count = page_count
        self.clock = clock
        self.sched = schedule
        self.flash = bytearray(b''.join(filler(p) for p in range(page_count)))
        self.initial = bytes(self.flash)
        self.erased = [False] * page_count
        self.touched_erase = []
        self.touched_write = []
        self.state = ERROR if schedule.get('start_error') else IDLE
        self.status = schedule.get('start_error') or 0
        self.pointer = None
        self.busy_until = 0.0
        self.wait_until = 0.0          # time before which no further request may arrive
        self.pending = None            # (kind, k, remaining busy delays, final delay, payload)
        self.counts = {'erase': 0, 'addr': 0, 'write': 0}
        self.violations = []           # protocol / safety invariants broken by the host
        self.requests = []             # trace
        self.dnloads = 0
        # GD32 quirk: the serial number string is ASCII packed two characters per UTF-16 unit; its THIRD character is the density
        # code.  What follows differs from part to part and may well contain another density letter ('3C4B': a 16 KiB part).
        suffix = schedule.get('serial_suffix', 'J')
        assert len(suffix) % 2 == 1
        self.serial_number = ('3C%s%s' % (schedule.get('density_letter', SIZE_LETTER[page_count]), suffix)).encode('ascii').decode('utf-16-le')
        self.pending_status = 0

    # -- helpers ---------------------------------------------------------------------------------------
    def _v(self, what):
        self.violations.append(what)

    def _arrival(self, what):
        if self.clock.now + 1e-9 < self.wait_until:
            self._v('%s issued at t=%.3fs although the device asked to be left alone until t=%.3fs' % (what, self.clock.now, self.wait_until))

    # -- pyusb surface ---------------------------------------------------------------------------------
    def ctrl_transfer(self, bmRequestType, bRequest, wValue=0, wIndex=0, data_or_wLength=None, timeout=None):
        if bRequest == 3:
            return self._getstatus(data_or_wLength)
        if bRequest == 4:
            return self._clrstatus()
        if bRequest == 1:
            return self._dnload(wValue, bytes(data_or_wLength or b''))
        if bRequest == 5:
            self.requests.append(('GETSTATE',))
            return bytes([self.state])
        if bRequest == 6:
            self.requests.append(('ABORT',))
            if self.state in (DNLOAD_IDLE, IDLE, DNLOAD_SYNC):
                self.state = IDLE
            return 0
        self.requests.append(('OTHER', bRequest))
        self._v('unexpected request %d' % bRequest)
        return 0

    def _clrstatus(self):
        self._arrival('CLRSTATUS')
        self.requests.append(('CLRSTATUS', self.state))
        if self.state == ERROR:
            self.state, self.status = IDLE, 0
        return 0

    def _getstatus(self, length):
        self._arrival('GETSTATUS')
        delay = 0
        if self.state == DNLOAD_SYNC and self.pending is not None:
            kind, k, busy, final, payload = self.pending
            if busy:
                delay = busy.pop(0)
                self.state = DNBUSY
            else:
                self._complete()
                delay = final
        elif self.state == DNBUSY and self.pending is not None:
            kind, k, busy, final, payload = self.pending
            if busy:
                delay = busy.pop(0)
            else:
                self._complete()
                delay = final
        elif self.pending is None and self.sched.get('status_delays'):
            # a status answer outside any operation (the initial polls, also while in dfuERROR) may ask for a delay too
            delay = self.sched['status_delays'].pop(0)
        resp = struct.pack('<BBBBBB', self.status, delay & 0xff, (delay >> 8) & 0xff, (delay >> 16) & 0xff, self.state, 0)
        self.requests.append(('GETSTATUS', self.status, self.state, delay))
        self.wait_until = self.clock.now + delay / 1000.0
        if self.sched.get('lenient_once') and self.status and self.state != ERROR:
            self.status = 0
        return resp

    def _complete(self):
        kind, k, busy, final, payload = self.pending
        self.pending = None
        inj = self.sched.get('inject', {}).get((kind, k))
        if inj:
            status, behaviour = inj
            if behaviour == 'spec':
                self.state, self.status = ERROR, status
            else:
                # lenient device: reports the status on this answer and carries on
                self.state, self.status = DNLOAD_IDLE, status
                self.sched['lenient_once'] = True
            return
        if kind == 'erase':
            page = payload
            self.flash[page * PAGE:(page + 1) * PAGE] = b'\xff' * PAGE
            self.erased[page] = True
            self.touched_erase.append(page)
        elif kind == 'addr':
            self.pointer = payload
        else:
            addr, data = payload
            off = addr - FLASH_BASE
            page = off // PAGE
            if not all(self.erased[p] for p in range(page, (off + len(data) - 1) // PAGE + 1)):
                self._v('page %d written without having been erased first' % page)
            for i, b in enumerate(data):
                self.flash[off + i] &= b
            for p in range(page, (off + len(data) - 1) // PAGE + 1):
                self.erased[p] = False
                self.touched_write.append(p)
        self.state, self.status = DNLOAD_IDLE, 0

    def _dnload(self, wValue, data):
        self._arrival('DNLOAD')
        self.dnloads += 1
        self.requests.append(('DNLOAD', wValue, len(data), data[:5].hex()))
        if self.state == ERROR:
            raise FakeUSBError('[Errno 32] Pipe error (device is in dfuERROR and stalls DFU_DNLOAD)')
        if self.state not in (IDLE, DNLOAD_IDLE):
            self._v('DFU_DNLOAD while the device is in state %d (previous operation not polled to completion)' % self.state)
            self.state, self.status = ERROR, 15
            raise FakeUSBError('[Errno 32] Pipe error (unexpected request)')
        if wValue == 0:
            if len(data) == 5 and data[0] in (0x41, 0x21):
                addr = struct.unpack('<I', data[1:])[0]
                kind = 'erase' if data[0] == 0x41 else 'addr'
                if not (FLASH_BASE <= addr < FLASH_BASE + self.page_count * PAGE):
                    self._v('%s address 0x%08x lies outside the flash' % (kind, addr))
                    self.state, self.status = ERROR, 8
                    return len(data)
                if kind == 'erase' and (addr - FLASH_BASE) % PAGE:
                    self._v('erase address 0x%08x is not page aligned' % addr)
                k = self.counts[kind]
                self.counts[kind] += 1
                payload = (addr - FLASH_BASE) // PAGE if kind == 'erase' else addr
                self._begin(kind, k, payload)
                return len(data)
            self._v('unsupported DfuSe command %s' % data[:1].hex())
            self.state, self.status = ERROR, 15
            return len(data)
        if wValue == 1:
            self._v('DNLOAD with wValue 1 is reserved in DfuSe')
            return len(data)
        # data block
        if self.pointer is None:
            self._v('data block written before any address pointer was set')
            self.state, self.status = ERROR, 8
            return len(data)
        addr = self.pointer + (wValue - 2) * PAGE
        if len(data) == 0:
            self.requests.append(('LEAVE',))
            self.state = IDLE
            return 0
        if not (FLASH_BASE <= addr and addr + len(data) <= FLASH_BASE + self.page_count * PAGE):
            self._v('write of %d bytes at 0x%08x lies outside the flash' % (len(data), addr))
            self.state, self.status = ERROR, 8
            return len(data)
        if len(data) > PAGE:
            self._v('block of %d bytes exceeds the transfer size' % len(data))
        k = self.counts['write']
        self.counts['write'] += 1
        self._begin('write', k, (addr, data))
        return len(data)

    def _begin(self, kind, k, payload):
        busy = list(self.sched.get('busy', {}).get((kind, k), []))
        final = self.sched.get('idle_delay', {}).get((kind, k), 0)
        self.pending = (kind, k, busy, final, payload)
        self.state = DNLOAD_SYNC


class FakeUsb:
    """Replacement for the `usb` package inside bronzebeard.dfu."""

    def __init__(self, device):
        self._device = device
        outer = self

        class core:
            USBError = FakeUSBError

            @staticmethod
            def find(**kw):
                outer.find_args = kw
                return device

        class _libusb1:
            @staticmethod
            def get_backend(**kw):
                return None

        class backend:
            libusb1 = _libusb1

        self.core = core
        self.backend = backend


class FakeTime:
    def __init__(self, clock):
        self._clock = clock

    def sleep(self, s):
        self._clock.sleep(s)

    def time(self):
        return self._clock.now

    def monotonic(self):
        return self._clock.now
