"""Hypothesis strategies for bronzebeard programs (as IR).

Soundness rules (all from the docs or from what the documented language requires) are listed in
DESIGN.md section 2.2; every one of them is enforced by construction here, never by filtering.
"""
from hypothesis import strategies as st

from . import ir, rvref

LABEL_NAMES = ['loop', 'L1', 'done', 'string_tab', 'include_me', 'x', '_start', 'e', 'error1', 'Main', 'l',
               'data_end', 'j_', 'li_', '__', 'a_b_c', 'pack_it', 'L', 'target9', 'here', 'there', 'far_away',
               'isr', 'T_0', 'zero_', 'sp_', 'retn', 'aligned', 'Lx8', 'end',
               # names that are substrings of number spellings (0xa, 0b1, 1e..) or of constant names below
               'a', 'b', 'f', 'FO', 'REG', 'BA', 'k', 'N', 'SI', 'Mas', 'big_', 'c']
CONST_NAMES = ['K', 'FOO', 'BAR', 'RCU_BASE', 'k2', 'ADDR', 'Stringy', 'align_', 'X', 'N0', '_k', 'SIZE', 'Mask',
               'SHIFT', 'BIT', 'OFFSET', 'neg1', 'Z', 'W', 'REG_A', 'REG_B', 'tmp_reg', 'PTR', 'Q', 'big', 'c0']
assert all(ir.name_ok(n) for n in LABEL_NAMES + CONST_NAMES)
# a label may also be spelled like a register (`s1:`, `ra:`): legal - a label is only ever looked up in label position, where the
# assembler consults constants and labels, not registers - and accepted by the assembler; kept out of name_ok() because such
# a name must never be used for a CONSTANT (that is refused) or rendered where a register is expected
LABEL_NAMES += ['s1', 'ra', 'x5', 'a0', 'fp']
# identifiers need not be ASCII (both names are stable under the NFKC normalisation Python applies to identifiers)
LABEL_NAMES += ['größe', 'λ']
# register names are lower case only (`addi A0, x0, 1` is refused: "A0" is no register), so an UPPER-case register spelling is
# an ordinary identifier and a legal constant name
CONST_NAMES += ['A0', 'SP', 'X5', 'ZERO', 'T1', 'S1']
# likewise `ERROR = 5` / `String = 2` are constant definitions (only the lower-case words start a directive line)
CONST_NAMES += ['ERROR', 'String']
# ... and hi / lo / o are plain names (only %hi / %lo with the percent sign are modifiers)
CONST_NAMES += ['hi', 'lo', 'o']
assert not set(LABEL_NAMES) & set(CONST_NAMES)

EDGE_REGS = [0, 1, 2, 5, 6, 7, 8, 9, 15, 16, 31]

DEFAULT_PROFILE = dict(
    n_items=(3, 40), n_labels=(1, 6), n_consts=(0, 5),
    w_alu=6, w_imm=6, w_shift=3, w_load=3, w_store=3, w_branch=4, w_jal=2, w_upper=2, w_sys=1,
    w_pseudo=4, w_li=4, w_calltail=2, w_cinsn=2, w_data=3, w_align=1, w_group=2, w_labelval=2,
    p_compressible=0.5,      # chance that an operand tuple is drawn from the RVC-eligible region
    p_const_operand=0.15,    # chance that a literal operand is replaced by a constant of equal value
    p_alias=0.1,             # chance that a register is written through a register-alias constant
    big_gaps=True, odd_data=True, far=True,
    li_label=True,           # li with label-dependent operands
    labelval_direct=True,    # label-dependent I/S/U immediates not wrapped in %lo/%hi
    max_gap=0,
    chr_extra='',            # further characters for character literals (C11: the quote itself, # , ( ) " and the blank)
)


def profile(**kw):
    p = dict(DEFAULT_PROFILE)
    p.update(kw)
    return p


def pess_size(it):
    """Documented pessimistic size of an item (4 / 8 / data size; align: n)."""
    k = it.kind
    if k in ('label', 'const', 'raw'):
        return 0
    if k == 'insn':
        return 2 if it.mn.startswith('c.') else 4
    if k == 'pseudo':
        return 8 if it.name in ('li', 'call', 'tail') else 4
    if k == 'align':
        return it.n
    return it.size()


class Builder:
    def __init__(self, draw, prof):
        self.draw = draw
        self.p = prof
        self.labels = []
        self.consts = []         # ConstDef items in definition order
        self.cvals = {}          # name -> value (ints) / ('reg', n)
        self.addr_consts = []    # names of integer constants that hold an absolute address near the code
        self.items = []
        self.tags = set()        # generator classes present in this program
        self.expected_ok = True  # program is legal with wide margins

    # -- primitive draws ---------------------------------------------------------------------
    # All choices below come from one PRNG that is seeded with a single Hypothesis-drawn 64-bit integer
    # (see build()): the program is a pure function of that integer.  Hypothesis' own integer / sampled_from
    # distributions favour small values and the first elements of a list (measured: boundary operands such as
    # "lw x8, 128(x9)" were produced 20x less often than designed), and programs are minimised by an own
    # ddmin over IR items anyway, so nothing is lost by not letting Hypothesis shrink these choices.
    def i(self, lo, hi):
        return self.rnd.randint(lo, hi)

    def chance(self, p):
        if p <= 0:
            return False
        return self.rnd.random() < p

    def pick(self, seq):
        seq = list(seq)
        return seq[self.rnd.randrange(len(seq))]

    def weighted(self, pairs):
        pairs = [(k, w) for k, w in pairs if w > 0]
        total = sum(w for _, w in pairs)
        x = self.i(0, total - 1)
        for k, w in pairs:
            if x < w:
                return k
            x -= w
        raise AssertionError

    def edgy(self, lo, hi, mult=1, extra=()):
        """Boundary-biased integer in [lo, hi] that is a multiple of mult."""
        lo_m, hi_m = -((-lo) // mult), hi // mult
        cands = {lo_m, lo_m + 1, hi_m, hi_m - 1, 0, 1, -1, 2, 15, 16, 31, 32, -32, -33}
        for e in extra:
            cands.add(e // mult)
        cands = sorted(c for c in cands if lo_m <= c <= hi_m)
        if self.chance(0.5):
            return self.pick(cands) * mult
        return self.i(lo_m, hi_m) * mult

    # -- registers ---------------------------------------------------------------------------
    def reg_n(self, pool=None):
        if pool is not None:
            return self.pick(pool)
        if self.chance(0.6):
            return self.pick(EDGE_REGS)
        return self.i(0, 31)

    def reg(self, n=None, pool=None):
        if n is None:
            n = self.reg_n(pool)
        alias = None
        if self.chance(self.p['p_alias']):
            names = [c.name for c in self.consts if c.reg == n]
            if names:
                alias = self.pick(names)
                self.tags.add('alias_operand')
        return ir.Reg(n, alias)

    # -- values ------------------------------------------------------------------------------
    def lit_or_const(self, v, top=True):
        """A literal, a constant that has exactly this value, or (p_expr_operand) an arithmetic expression that evaluates to it."""
        if self.chance(self.p['p_const_operand']):
            names = [n for n, cv in self.cvals.items() if cv == v and not isinstance(cv, tuple)]
            if names:
                self.tags.add('const_operand')
                return ir.CRef(self.pick(names))
        if self.chance(self.p.get('p_expr_operand', 0.06)):
            self.tags.add('expr_operand')
            return self.expr_for(v, top)
        return ir.Lit(v)

    def expr_for(self, v, top=True):
        """An arithmetic expression (documented: "basic arithmetic operations" over integers and constants) with value v.  The first
        token is often a bare decimal 0..31 - a spelling that is also a register name."""
        k = self.i(0, 9)
        a = self.pick([0, 1, 2, 4, 5, 8, 10, 16, 31, 3, 7]) if self.chance(0.7) else self.i(-64, 4096)
        if k == 9 and not top:
            k = 0      # (no modifier inside the argument of another modifier)
        if k == 9:
            names9 = [n for n, cv in self.cvals.items() if not isinstance(cv, tuple) and abs(cv) < (1 << 40)]
            if names9:
                # %position(K, n) over a CONSTANT: K + n, final as soon as the constants are known
                n9 = self.pick(names9)
                self.tags.add('position_of_constant')
                return ir.PosC(n9, ir.Lit(v - self.cvals[n9]))
            k = 0
        if k == 8:
            # a top-level shift: ADDR >> 12 (the usual way to write a lui operand)
            sh = self.pick([12, 12, 4, 1])
            return ir.Bin('>>', ir.Lit((v << sh) | self.i(0, (1 << sh) - 1)), ir.Lit(sh))
        names = [n for n, cv in self.cvals.items() if not isinstance(cv, tuple) and abs(cv) < (1 << 40)]
        if k == 0:
            return ir.Bin('+', ir.Lit(a), ir.Lit(v - a))
        if k == 1:
            return ir.Bin('-', ir.Lit(a), ir.Lit(a - v))
        if k == 2:
            for m in (16, 8, 4, 3, 2):
                if v % m == 0 and v != 0:
                    return ir.Bin('*', ir.Lit(m), ir.Lit(v // m)) if self.chance(0.5) else ir.Bin('*', ir.Lit(v // m), ir.Lit(m))
            return ir.Bin('+', ir.Lit(a), ir.Lit(v - a))
        if k == 3:
            for sh in (4, 3, 2, 1):
                if v % (1 << sh) == 0 and v != 0:
                    return ir.Bin('<<', ir.Lit(v >> sh), ir.Lit(sh))
            return ir.Bin('|', ir.Lit(v & ~1), ir.Lit(v & 1)) if v >= 0 else ir.Un('-', ir.Lit(-v))
        if k == 4:
            # parentheses that matter for the value; not at the very start of a top-level operand (loads, stores and jalr take a
            # leading parenthesis for the imm(reg) syntax)
            m = self.pick([2, 3, 4])
            if v % m == 0:
                inner = ir.Paren(ir.Bin('+', ir.Lit(a), ir.Lit(v // m - a)))
                return ir.Bin('*', inner, ir.Lit(m)) if (not top and self.chance(0.5)) else ir.Bin('*', ir.Lit(m), inner)
            return ir.Bin('-', ir.Lit(v + a), ir.Paren(ir.Bin('-', ir.Lit(2 * a), ir.Lit(a))))
        if k == 5 and names:
            n = self.pick(names)
            self.tags.add('const_operand')
            return ir.Bin('+', ir.CRef(n), ir.Lit(v - self.cvals[n])) if self.chance(0.5) else ir.Bin('-', ir.Lit(v + self.cvals[n]), ir.CRef(n))
        if k == 6:
            return ir.Un('~', ir.Lit(~v)) if self.chance(0.5) else ir.Un('-', ir.Lit(-v))
        return ir.Bin('+', ir.Bin('*', ir.Lit(a), ir.Lit(2)), ir.Lit(v - 2 * a))

    def label(self):
        return self.pick(self.labels)

    def labelval12(self):
        """A label-dependent value that fits a signed 12-bit immediate by construction (%lo), or - when the
        profile allows - directly (which fits as long as the program stays small)."""
        self.tags.add('labelval')
        L = self.label()
        kind = self.weighted([('lo_l', 3), ('lo_pos', 3), ('lo_off', 2), ('lo_offc', 2 if self.addr_consts else 0),
                              ('offc', 2 if (self.p['labelval_direct'] and self.addr_consts) else 0),
                              ('l', 2 if self.p['labelval_direct'] else 0),
                              ('off', 2 if self.p['labelval_direct'] else 0),
                              ('pos', 2 if self.p['labelval_direct'] else 0)])
        if kind == 'lo_l':
            return ir.Lo(ir.LRef(L))
        if kind == 'lo_pos':
            return ir.Lo(ir.Pos(L, self.pos_base()))
        if kind == 'lo_off':
            return ir.Lo(ir.Off(L))
        if kind == 'lo_offc':
            self.tags.add('offset_to_constant')
            return ir.Lo(ir.OffC(self.pick(self.addr_consts)))
        if kind == 'offc':
            self.tags.add('offset_to_constant')
            self.expected_ok = False
            return ir.OffC(self.pick(self.addr_consts))
        if kind == 'l':
            self.expected_ok = False
            return ir.LRef(L)
        if kind == 'off':
            self.expected_ok = False
            return ir.Off(L)
        self.expected_ok = False
        return ir.Pos(L, self.lit_or_const(self.edgy(-1024, 1024), top=False))

    def pos_base(self):
        k = self.i(0, 5)
        if k == 0:
            return self.lit_or_const(self.edgy(-2100, 2100, extra=(-2048, 2047, -2060, 2040)), top=False)
        if k == 1:
            return ir.Lit(self.pick([0x08000000, 0x20000000, 0x7ffff800, 0x7fffffff, 0x80000000, 0xfffff000, 0x40021000]))
        if k == 2:
            return ir.Lit(-self.pick([1, 0x800, 0x1000, 0x7ff, 0x80000000]))
        if k == 3 and self.cvals:
            names = [n for n, cv in self.cvals.items() if not isinstance(cv, tuple)]
            if names:
                return ir.CRef(self.pick(names))
        return ir.Lit(self.i(-(1 << 31), (1 << 32) - 1))

    def labelval_any(self):
        """Label-dependent value of arbitrary magnitude (li operands, dw/pack values)."""
        self.tags.add('labelval')
        L = self.label()
        kind = self.i(0, 8)
        if kind == 8:
            if self.addr_consts:
                self.tags.add('offset_to_constant')
                return ir.OffC(self.pick(self.addr_consts))
            kind = 2
        if kind == 6:
            # a value that GROWS when the label moves down (counts down from the label)
            return ir.Bin('-', ir.Lit(self.pick([2040, 2047, 2050, 2060, 2070, 2100, 4096, 40])), ir.LRef(L))
        if kind == 7:
            # a value that is small while the label is still at its pessimistic place and far negative afterwards
            return ir.Pos(L, ir.Lit(-self.pick([2048, 4096, 8000, 8192, 100, 2060])))
        if kind == 0:
            return ir.LRef(L)
        if kind == 1:
            return ir.Pos(L, self.pos_base())
        if kind == 2:
            return ir.Off(L)
        if kind == 3:
            return ir.Bin('+', ir.LRef(L), ir.Lit(self.edgy(0, 4096)))
        if kind == 4:
            return ir.Bin('-', ir.LRef(L), ir.LRef(self.label()))
        return ir.Pos(L, ir.Lit(self.pick([0x08000000, 0x20000000, -2060, -2048, 2040, 2047])))

    # -- constants ---------------------------------------------------------------------------
    def expr(self, depth, want=None):
        """Expression tree over literals and earlier integer constants; returns (V, value)."""
        names = [n for n, cv in self.cvals.items() if not isinstance(cv, tuple)]
        if depth <= 0 or self.chance(0.3):
            if names and self.chance(0.35):
                n = self.pick(names)
                return ir.CRef(n), self.cvals[n]
            if self.chance(0.15):
                # character literals as operands of arithmetic ('a' + 'b' + 'c': several on one line)
                ch = self.pick('AZaz09?!+-*/<>=_.:;@$%^&|~[]{}' + self.p.get('chr_extra', ''))
                return ir.Chr(ch), ord(ch)
            v = self.pick([0, 1, 2, 3, 4, 7, 8, 15, 16, 31, 32, 42, 255, 256, 0x7ff, 0x800, 0xfff, 0x1000, 0xffff,
                           0x40021000, 0x7fffffff, 0x80000000, 0xffffffff]) if self.chance(0.5) else self.i(0, 1 << 20)
            if self.chance(0.15):
                v = -v
            return ir.Lit(v), v
        kind = self.i(0, 11)
        if kind <= 7:
            op = self.pick(['+', '-', '*', '//', '%', '<<', '>>', '&', '|', '^'])
            a, av = self.expr(depth - 1)
            if op in ('<<', '>>'):
                b, bv = ir.Lit(self.i(0, 40)), None
                bv = b.value
            elif op in ('//', '%'):
                b, bv = self.expr(depth - 1)
                if self.chance(0.5):
                    b = ir.Lit(self.pick([1, 10, 11, 100, 101, 2, 7, 16]))
                    bv = b.value
                if bv == 0:
                    b, bv = ir.Lit(self.i(1, 9)), None
                    bv = b.value
            else:
                b, bv = self.expr(depth - 1)
            node = ir.Bin(op, a, b)
            val = ir.BINOPS[op](av, bv)
            if abs(val) > (1 << 80):   # keep magnitudes printable; shifts can explode
                return a, av
            return node, val
        if kind <= 9:
            op = self.pick(['-', '~'])
            a, av = self.expr(depth - 1)
            return ir.Un(op, a), (-av if op == '-' else ~av)
        a, av = self.expr(depth - 1)
        return ir.Paren(a), av

    def add_const(self, name):
        kind = self.weighted([('small', 4), ('shamt', 2), ('word', 3), ('expr', 4), ('reg', 3), ('chr', 1), ('addr', 2)])
        if kind == 'addr':
            # an absolute address near the code (even): target of jumps / branches and of %offset
            v = ir.Lit(self.edgy(0, 4094, 2, extra=(2046, 2048, 2050, 254, 256, 258, 8, 12, 16, 40, 100)))
            self.addr_consts.append(name)
            self.cvals[name] = v.value
            c = ir.ConstDef(name, value=v)
            self.consts.append(c)
            return c
        if kind == 'reg':
            n = self.reg_n()
            c = ir.ConstDef(name, reg=n)
            self.cvals[name] = ('reg', n)
        elif kind == 'chr':
            ch = self.pick('AZaz09 ?!+-*/<>=_.:;@$%^&|~[]{}\t\t' + self.p.get('chr_extra', ''))     # (also a literal TAB between the quotes)
            c = ir.ConstDef(name, value=ir.Chr(ch))
            self.cvals[name] = ord(ch)
        else:
            if kind == 'small':
                v = ir.Lit(self.edgy(-2048, 2047))
                val = v.value
            elif kind == 'shamt':
                v = ir.Lit(self.i(0, 31))
                val = v.value
            elif kind == 'word':
                v = ir.Lit(self.pick([0x08000000, 0x20000000, 0x40021000, 0xffffffff, 0x7ffff800, 0x12345678,
                                      -0x80000000, 0xfffff800, 0x800, 0x1000]))
                val = v.value
            else:
                v, val = self.expr(self.i(1, 4))
            c = ir.ConstDef(name, value=v)
            self.cvals[name] = val
        self.consts.append(c)
        return c

    # -- instructions ------------------------------------------------------------------------
    def imm12(self, lo=-2048, hi=2047, mult=1, extra=()):
        if self.labels and self.chance(self.p['w_labelval'] / 20.0):
            return self.labelval12()
        return self.lit_or_const(self.edgy(lo, hi, mult, extra))

    def insn_alu(self):
        comp = self.chance(self.p['p_compressible'])
        mn = self.pick(['add', 'sub', 'sll', 'slt', 'sltu', 'xor', 'srl', 'sra', 'or', 'and', 'mul', 'mulh',
                        'mulhsu', 'mulhu', 'div', 'divu', 'rem', 'remu'] if not comp else
                       ['add', 'add', 'sub', 'xor', 'or', 'and'])
        if comp and mn == 'add':
            rd = self.reg_n()
            k = self.i(0, 2)
            rs1 = 0 if k == 0 else rd
            return ir.Insn(mn, {'rd': self.reg(rd), 'rs1': self.reg(rs1), 'rs2': self.reg()})
        if comp:
            rd = self.pick([7, 8, 9, 15, 16, 12])
            # near miss: all three registers compressible but rd != rs1 (no c.* form exists for that)
            rs1 = self.pick([8, 9, 15, 10]) if self.chance(0.25) else rd
            return ir.Insn(mn, {'rd': self.reg(rd), 'rs1': self.reg(rs1), 'rs2': self.reg(pool=[7, 8, 9, 15, 16, 10])})
        return ir.Insn(mn, {'rd': self.reg(), 'rs1': self.reg(), 'rs2': self.reg()})

    def insn_imm(self):
        comp = self.chance(self.p['p_compressible'])
        if comp:
            k = self.i(0, 5)
            if k == 0:   # c.addi16sp region
                return ir.Insn('addi', {'rd': self.reg(2), 'rs1': self.reg(2),
                                        'imm': self.imm12(-560, 560, 1, extra=(-512, 496, 512, -528, 16, -16, 8))})
            if k == 1:   # c.addi4spn region
                return ir.Insn('addi', {'rd': self.reg(pool=[7, 8, 15, 16]), 'rs1': self.reg(2),
                                        'imm': self.imm12(-8, 1040, 1, extra=(4, 1020, 1024, 1016, 2, 0))})
            if k == 2:   # c.addi / c.mv / c.nop region (sometimes rd != rs1: only imm 0 has a c.* form then)
                rd = self.reg_n()
                rs1 = self.reg_n() if self.chance(0.2) else rd
                return ir.Insn('addi', {'rd': self.reg(rd), 'rs1': self.reg(rs1), 'imm': self.imm12(-40, 40)})
            if k == 3:   # c.li region
                return ir.Insn('addi', {'rd': self.reg(), 'rs1': self.reg(0), 'imm': self.imm12(-40, 40)})
            if k == 4:   # c.andi region
                rd = self.pick([7, 8, 15, 16])
                rs1 = self.pick([8, 9, 15]) if self.chance(0.2) else rd
                return ir.Insn('andi', {'rd': self.reg(rd), 'rs1': self.reg(rs1), 'imm': self.imm12(-40, 40)})
            return ir.Insn('addi', {'rd': self.reg(), 'rs1': self.reg(), 'imm': ir.Lit(0)})
        mn = self.pick(['addi', 'slti', 'sltiu', 'xori', 'ori', 'andi'])
        return ir.Insn(mn, {'rd': self.reg(), 'rs1': self.reg(), 'imm': self.maybe_paren(self.imm12())})

    def shamt(self, v):
        if self.chance(self.p['p_const_operand']):
            names = [n for n, cv in self.cvals.items() if cv == v and not isinstance(cv, tuple)]
            if names:
                self.tags.add('const_shamt')
                return ir.CRef(self.pick(names))
        if self.chance(0.08):
            self.tags.add('shamt_as_register_name')
            return ir.ShamtReg(v)
        return ir.Lit(v)

    def insn_shift(self):
        mn = self.pick(['slli', 'srli', 'srai'])
        sh = self.pick([0, 1, 31, 16]) if self.chance(0.4) else self.i(0, 31)
        if self.chance(self.p['p_compressible']):
            rd = self.pick([7, 8, 15, 16, 1, 0]) if mn != 'slli' else self.reg_n()
            rs1 = self.pick([8, 9, 15, 1]) if self.chance(0.2) else rd
            return ir.Insn(mn, {'rd': self.reg(rd), 'rs1': self.reg(rs1), 'shamt': self.shamt(sh)})
        return ir.Insn(mn, {'rd': self.reg(), 'rs1': self.reg(), 'shamt': self.shamt(sh)})

    def insn_load(self):
        if self.chance(self.p['p_compressible']):
            if self.chance(0.5):
                return ir.Insn('lw', {'rd': self.reg(), 'rs1': self.reg(2),
                                      'imm': self.imm12(-8, 264, 1, extra=(252, 256, 248, 4, 2))},
                               baseoff=self.chance(0.5))
            return ir.Insn('lw', {'rd': self.reg(pool=[7, 8, 15, 16]), 'rs1': self.reg(pool=[7, 8, 15, 16]),
                                  'imm': self.imm12(-8, 136, 1, extra=(124, 128, 120, 4, 2))},
                           baseoff=self.chance(0.5))
        mn = self.pick(['lb', 'lh', 'lw', 'lbu', 'lhu'])
        return ir.Insn(mn, {'rd': self.reg(), 'rs1': self.reg(), 'imm': self.imm12()}, baseoff=self.chance(0.5))

    def insn_store(self):
        if self.chance(self.p['p_compressible']):
            if self.chance(0.5):
                return ir.Insn('sw', {'rs1': self.reg(2), 'rs2': self.reg(),
                                      'imm': self.imm12(-8, 264, 1, extra=(252, 256, 248, 4, 2))},
                               baseoff=self.chance(0.5))
            return ir.Insn('sw', {'rs1': self.reg(pool=[7, 8, 15, 16]), 'rs2': self.reg(pool=[7, 8, 15, 16]),
                                  'imm': self.imm12(-8, 136, 1, extra=(124, 128, 120, 4, 2))},
                           baseoff=self.chance(0.5))
        mn = self.pick(['sb', 'sh', 'sw'])
        return ir.Insn(mn, {'rs1': self.reg(), 'rs2': self.reg(), 'imm': self.imm12()}, baseoff=self.chance(0.5))

    def insn_upper(self):
        mn = self.pick(['lui', 'lui', 'auipc'])
        if self.labels and self.chance(0.3):
            self.tags.add('labelval')
            L = self.label()
            v = self.pick([ir.Hi(ir.LRef(L)), ir.Hi(ir.Pos(L, self.pos_base())), ir.Hi(ir.Off(L))])
            return ir.Insn(mn, {'rd': self.reg(), 'imm': v})
        if self.chance(self.p['p_compressible']) and mn == 'lui':
            v = self.pick([1, 31, 32, -1, -32, -33, 0, 0xfffe0, 0xfffff, 0xfffdf, 16, 0x1f, 0x20, 0xfffe1, 0xfffef, 0xffff0, 0xffff1,
                           self.i(0xfffe0, 0xfffff), self.i(-32, 31)])
            return ir.Insn('lui', {'rd': self.reg(pool=[0, 1, 2, 3, 8, 15, 31]), 'imm': self.upper_operand(v)})
        v = self.edgy(-0x80000, 0xfffff, extra=(0x7ffff, 0x80000, 0xfffe0))
        return ir.Insn(mn, {'rd': self.reg(), 'imm': self.upper_operand(v)})

    def auipc_pair(self):
        """A hand-written auipc + jalr / addi pair with literal operands (the jalr with offset 0 is the expansion of c.jr / c.jalr)."""
        self.tags.add('literal_auipc_pair')
        x = self.pick([5, 6, 7, 1, 28, 10])
        first = ir.Insn('auipc', {'rd': self.reg(x), 'imm': ir.Lit(self.pick([0, 0, 1, 0x10, 0xfffff]))})
        if self.chance(0.7):
            second = ir.Insn('jalr', {'rd': self.reg(self.pick([0, 1])), 'rs1': self.reg(x), 'imm': ir.Lit(self.pick([0, 0, 0, 4, 8, -4]))}, baseoff=self.chance(0.5))
        else:
            second = ir.Insn('addi', {'rd': self.reg(x), 'rs1': self.reg(x), 'imm': ir.Lit(self.pick([0, 4, 16, -32, 31, 100]))})
        return [first, second]

    def maybe_paren(self, v):
        """(x) as a whole operand - only for instructions that have no imm(reg) spelling (there a leading parenthesis is ambiguous)."""
        if isinstance(v, (ir.Lit, ir.CRef, ir.Bin)) and self.chance(0.06):
            self.tags.add('parenthesised_operand')
            return ir.Paren(v)
        return v

    def upper_operand(self, v):
        if self.chance(0.06):
            self.tags.add('parenthesised_operand')
            return ir.Paren(ir.Lit(v))
        if self.chance(0.2):
            self.tags.add('expr_operand')
            return self.expr_for(v)
        return self.lit_or_const(v) if self.chance(0.3) else ir.Lit(v)

    def insn_sys(self):
        k = self.i(0, 5)
        if k == 0:
            return ir.Insn(self.pick(['ecall', 'ebreak', 'fence.i']), {})
        if k == 1:
            return ir.Insn('fence', {'succ': self.i(0, 15), 'pred': self.i(0, 15)})
        if k == 2:
            mn = self.pick(['csrrw', 'csrrs', 'csrrc'])
            return ir.Insn(mn, {'rd': self.reg(), 'rs1': self.reg(), 'csr': ir.Lit(self.edgy(0, 0x7ff, extra=(0x300, 0x305, 0x341)))})
        if k == 3:
            mn = self.pick(['csrrwi', 'csrrsi', 'csrrci'])
            return ir.Insn(mn, {'rd': self.reg(), 'rs1': self.i(0, 31), 'csr': ir.Lit(self.edgy(0, 0x7ff, extra=(0x300, 0x305)))})
        if k == 4:
            return ir.Insn('lr.w', {'rd': self.reg(), 'rs1': self.reg(), 'aq': self.i(0, 1), 'rl': self.i(0, 1)})
        mn = self.pick(['sc.w', 'amoswap.w', 'amoadd.w', 'amoxor.w', 'amoand.w', 'amoor.w', 'amomin.w', 'amomax.w',
                        'amominu.w', 'amomaxu.w'])
        return ir.Insn(mn, {'rd': self.reg(), 'rs1': self.reg(), 'rs2': self.reg(), 'aq': self.i(0, 1), 'rl': self.i(0, 1)})

    def insn_c(self):
        """Explicit c.* instruction with legal literal operands (transfers are made by groups)."""
        mn = self.pick(['c.addi4spn', 'c.lw', 'c.sw', 'c.nop', 'c.addi', 'c.li', 'c.addi16sp', 'c.lui', 'c.srli',
                        'c.srai', 'c.andi', 'c.sub', 'c.xor', 'c.or', 'c.and', 'c.slli', 'c.lwsp', 'c.jr', 'c.mv',
                        'c.ebreak', 'c.jalr', 'c.add', 'c.swsp'])
        self.tags.add('explicit_c')
        if self.labels and self.chance(0.12):
            # an explicit c.* instruction whose immediate depends on a label (in range only when the label is close: most of these
            # are refused, which is fine and counted)
            self.tags.add('explicit_c_labelval')
            self.expected_ok = False
            L = self.label()
            v = self.pick([ir.Lo(ir.Off(L)), ir.Off(L), ir.Lo(ir.LRef(L)), ir.LRef(L)])
            k = self.i(0, 2)
            if k == 0:
                return ir.Insn('c.li', {'rd_rs1': self.reg(self.i(1, 31)), 'imm': v})
            if k == 1:
                return ir.Insn('c.addi', {'rd_rs1': self.reg(self.i(1, 31)), 'imm': v})
            return ir.Insn('c.lwsp', {'rd_rs1': self.reg(self.i(1, 31)), 'imm': v})
        ops = {}
        rng = rvref.C_IMM_RANGE.get(mn)
        for f in rvref.C_OPERANDS[mn]:
            if f == 'imm':
                lo, hi, mult = rng
                v = self.edgy(lo, hi, mult)
                if v == 0 and mn in ('c.addi', 'c.lui', 'c.addi16sp', 'c.addi4spn'):
                    v = mult
                ops[f] = self.expr_for(v) if self.chance(0.2) else self.lit_or_const(v)
            else:
                prime = mn in ('c.addi4spn', 'c.lw', 'c.sw', 'c.srli', 'c.srai', 'c.andi', 'c.sub', 'c.xor', 'c.or', 'c.and')
                if prime:
                    n = self.i(8, 15)
                elif mn == 'c.lui':
                    n = self.pick([1, 3, 4, 8, 15, 31])
                elif mn == 'c.swsp' and f == 'rs2':
                    n = self.i(0, 31)
                else:
                    n = self.i(1, 31)
                ops[f] = self.reg(n)
        return ir.Insn(mn, ops, baseoff=self.chance(0.5))

    def pseudo_simple(self):
        name = self.pick(['nop', 'mv', 'not', 'neg', 'seqz', 'snez', 'sltz', 'sgtz', 'jr', 'jalr', 'ret', 'fence'])
        if name in ('nop', 'ret', 'fence'):
            return ir.Pseudo(name, [])
        if name in ('jr', 'jalr'):
            return ir.Pseudo(name, [self.reg()])
        rd = self.reg_n()
        rs = rd if self.chance(0.3) else self.reg_n()
        return ir.Pseudo(name, [self.reg(rd), self.reg(rs)])

    def li_value(self):
        v = self._li_value()
        if isinstance(v, ir.Lit) and self.chance(0.15):
            # the value written as arithmetic: `li t0, 1 << 20`, `li t0, 4 * 1024`, `li t0, 0 - 5000` (the size of the li depends on
            # the VALUE, not on how its first token looks)
            self.tags.add('expr_operand')
            return self.expr_for(v.value)
        return self.maybe_paren(v)

    def _li_value(self):
        k = self.i(0, 9)
        if k <= 2:
            return ir.Lit(self.edgy(-2060, 2060, extra=(-2048, 2047, -2049, 2048, 31, 32, -32, -33)))
        if k == 3:
            up = self.pick([0, 1, 0x3ffff, 0x7fffe, 0x7ffff, 0x80000, 0xffffe, 0xfffff, 0x12345, 0xfffe0, 31, 32])
            low = self.pick([0, 1, 0x7ff, 0x800, 0x801, 0xfff, 0xffe]) if self.chance(0.6) else self.i(0, 0xfff)
            v = up << 12 | low
            return ir.Lit(v - (1 << 32) if (v >> 31 and self.chance(0.4)) else v)
        if k == 4:
            return ir.Lit(self.i(-(1 << 31), (1 << 32) - 1))
        if k == 5:
            names = [n for n, cv in self.cvals.items() if not isinstance(cv, tuple) and -(1 << 31) <= cv < (1 << 32)]
            if names:
                self.tags.add('const_operand')
                return ir.CRef(self.pick(names))
            return ir.Lit(self.i(-2048, 2047))
        if k == 6 and self.labels and self.p['li_label']:
            self.tags.add('li_label')
            return self.labelval_any()
        if k == 7 and self.labels and self.p['li_label']:
            self.tags.add('li_label')
            L = self.label()
            return self.pick([ir.LRef(L), ir.Pos(L, ir.Lit(self.pick([0x08000000, 0x20000000, 0])))])
        return ir.Lit(self.pick([0, 1, -1, 0x7ff, 0x800, -0x800, -0x801, 0x1000, 0xfffff000, 0x80000000, -0x80000000,
                                 0x7fffffff, 0xffffffff, 0x7ffff800, 0x7ffff7ff]))

    def data_item(self):
        k = self.i(0, 6)
        if k == 0:
            name = self.pick(['bytes', 'shorts', 'ints', 'longs', 'longlongs'])
            w = ir.SEQ_WIDTH[name]
            n = self.i(1, 5)
            if not self.p['odd_data'] and w == 1:
                n = 2 * ((n + 1) // 2)
            vals = [self.edgy(-(1 << (8 * w - 1)), (1 << (8 * w)) - 1) for _ in range(n)]
            return ir.Seq(name, vals)
        if k == 1:
            name = self.pick(['db', 'dh', 'dw', 'dd'] if self.p['odd_data'] else ['dh', 'dw', 'dd'])
            w = ir.SHORT_WIDTH[name]
            if w >= 4 and self.labels and self.chance(0.5):
                return ir.Short(name, self.labelval_any())
            return ir.Short(name, self.lit_or_const(self.edgy(-(1 << (8 * w - 1)), (1 << (8 * w)) - 1)))
        if k == 2:
            code = self.pick('bBhHiIlLqQ' if self.p['odd_data'] else 'hHiIlLqQ')
            w = ir.PACK_WIDTH[code]
            fmt = self.pick('<>') + code
            if w >= 4 and code.isupper() and self.labels and self.chance(0.5):
                return ir.Pack(fmt, ir.Pos(self.label(), ir.Lit(self.pick([0, 0x08000000, 0x20000000, 0x7ffff800, 1 << 40] if code == 'Q' else [0, 0x08000000, 0x20000000]))))
            lo, hi = (-(1 << (8 * w - 1)), (1 << (8 * w - 1)) - 1) if code.islower() else (0, (1 << (8 * w)) - 1)
            return ir.Pack(fmt, self.lit_or_const(self.edgy(lo, hi)))
        if k == 3:
            n = self.i(1, 12)
            text = ''.join(self.pick('abcXYZ 019_-.,;:#"\'()[]{}=+*' + ('éß→日😀' if self.p.get('nonascii_strings', True) else '')) for _ in range(n))
            if text.strip() == '' or text[0] == ' ':
                text = 'q' + text[1:]
            if not self.p['odd_data'] and len(text.encode('utf-8')) % 2:
                text += '!'
            return ir.Str(text)
        if k == 4:
            return ir.Gap(self.i(1, 64) * (1 if self.p['odd_data'] else 2))
        if k == 5:
            return ir.Seq('bytes', [self.i(0, 255)] * (1 if self.p['odd_data'] else 2))
        return ir.Short('dw', ir.Lit(self.i(0, (1 << 32) - 1)))

    def align_item(self):
        if self.chance(0.7 - self.p.get('p_big_align', 0.0)):
            return ir.Align(self.pick([1, 2, 4, 4, 8, 16]))
        if self.chance(self.p.get('p_big_align', 0.0) * 2):
            return ir.Align(self.pick([1024, 2048, 4096, 4096, 8192]))
        return ir.Align(self.pick([1, 1, 1, 2, 3, 4, 5, 6, 7, 8, 12, 16, 32, 64, 100, 128, 255, 256, 257, 512, 1000, 4096])
                        if self.chance(0.6) else self.i(1, 64))

    # -- transfers ---------------------------------------------------------------------------
    def numeric_transfer(self):
        """A branch / jump whose offset is an integer literal (any documented base), not a label."""
        self.tags.add('numeric_offset')
        k = self.i(0, 3)
        if k == 0:
            return ir.Insn(self.pick(sorted(rvref.BRANCHES)), {'rs1': self.reg(), 'rs2': self.reg(),
                                                                'imm': ir.Lit(self.edgy(-4096, 4094, 2, extra=(254, 256, -256, -258)))})
        if k == 1:
            return ir.Insn('jal', {'rd': self.reg(pool=[0, 1, 5]), 'imm': ir.Lit(self.edgy(-(1 << 20), (1 << 20) - 2, 2, extra=(2046, 2048, -2048, -2050)))})
        if k == 2:
            self.tags.add('explicit_c')
            return ir.Insn(self.pick(['c.beqz', 'c.bnez']), {'rs1': self.reg(self.i(8, 15)), 'imm': ir.Lit(self.edgy(-256, 254, 2))})
        self.tags.add('explicit_c')
        return ir.Insn(self.pick(['c.j', 'c.jal']), {'imm': ir.Lit(self.edgy(-2048, 2046, 2))})

    def const_transfer(self):
        """A branch / jump (real instruction) whose target is a constant absolute address, written as the bare constant name."""
        self.tags.add('offset_to_constant')
        K = self.pick(self.addr_consts)
        if self.chance(0.35):
            # through a pseudo-instruction (call / tail to a ROM routine, j, a one-register branch)
            name = self.pick(['call', 'tail', 'call', 'tail', 'j', 'jal', 'beqz', 'bnez'])
            return ir.Pseudo(name, ([self.reg(pool=[8, 9, 15, 5])] if name in ('beqz', 'bnez') else []) + [K])
        if self.chance(0.5):
            comp = self.chance(self.p['p_compressible'])
            mn = self.pick(['beq', 'bne']) if comp else self.pick(sorted(rvref.BRANCHES))
            return ir.Insn(mn, {'rs1': self.reg(pool=[7, 8, 15, 16]) if comp else self.reg(), 'rs2': self.reg(0) if comp else self.reg(),
                                'imm': ir.OffC(K, bare=True)})
        return ir.Insn('jal', {'rd': self.reg(pool=[0, 1, 5, 31]), 'imm': ir.OffC(K, bare=True)})

    def branch_insn(self, L, comp=None):
        if comp is None:
            comp = self.chance(self.p['p_compressible'])
        if self.chance(0.5):
            mn = self.pick(['beq', 'bne']) if comp else self.pick(sorted(rvref.BRANCHES))
            rs1 = self.reg(pool=[7, 8, 15, 16]) if comp else self.reg()
            rs2 = self.reg(0) if comp else self.reg()
            if comp and self.chance(0.25):
                rs1, rs2 = rs2, rs1     # near miss: x0 FIRST - beq x0, x9, L has no c.beqz form
            return ir.Insn(mn, {'rs1': rs1, 'rs2': rs2, 'imm': ir.Off(L, bare=True)})
        name = self.pick(['beqz', 'bnez'] if comp else ['beqz', 'bnez', 'blez', 'bgez', 'bltz', 'bgtz', 'bgt', 'ble', 'bgtu', 'bleu'])
        if name in ('bgt', 'ble', 'bgtu', 'bleu'):
            return ir.Pseudo(name, [self.reg(), self.reg(), L])
        return ir.Pseudo(name, [self.reg(pool=[7, 8, 15, 16]) if comp else self.reg(), L])

    def jump_insn(self, L):
        k = self.i(0, 3)
        if k == 0:
            return ir.Insn('jal', {'rd': self.reg(pool=[0, 1, 5, 31]), 'imm': ir.Off(L, bare=True)})
        if k == 1:
            return ir.Pseudo('j', [L])
        if k == 2:
            return ir.Pseudo('jal', [L])
        return ir.Insn('jal', {'rd': self.reg(), 'imm': ir.Off(L, bare=True)})

    def transfer(self, L, kind=None):
        kind = kind or self.weighted([('branch', self.p['w_branch']), ('jump', self.p['w_jal']),
                                      ('call', self.p['w_calltail']), ('tail', self.p['w_calltail'])])
        self.tags.add('transfer')
        if kind == 'branch':
            return self.branch_insn(L)
        if kind == 'jump':
            return self.jump_insn(L)
        return ir.Pseudo(kind, [L])

    def filler(self, n):
        out = []
        for _ in range(n):
            k = self.i(0, 5)
            if k == 0:
                out.append(self.insn_alu())
            elif k == 1:
                out.append(self.insn_imm())
            elif k == 2:
                out.append(ir.Pseudo('li', [self.reg(), self.li_value()]))
            elif k == 3:
                out.append(self.insn_shift())
            elif k == 4:
                out.append(self.insn_load())
            else:
                out.append(self.pseudo_simple())
        return out

    DIST = {
        'cb': [0, 2, 4, 250, 252, 254, 256, 258, 260],
        'b': [0, 2, 4, 250, 254, 256, 258, 2040, 2046, 2048, 2050, 4086, 4088, 4090, 4092, 4094, 4096, 4098, 4100],
        'cj': [0, 2, 2040, 2044, 2046, 2048, 2050, 2052],
        'j': [0, 2, 4, 254, 256, 2044, 2046, 2048, 2050, 2052, 4094, 4096, (1 << 20) - 8, (1 << 20) - 4,
              (1 << 20) - 2, 1 << 20, (1 << 20) + 2, (1 << 20) + 4],
        'call': [0, 4, 8, 2040, 2044, 2046, 2048, 2050, 2052, 4092, 4096, 4100, 8192, 3 * 4096 + 0x7fc,
                 3 * 4096 + 0x800, 3 * 4096 + 0x804, (1 << 20) - 8, (1 << 20) - 4, (1 << 20) - 2, 1 << 20,
                 (1 << 20) + 2, (1 << 20) + 4, (1 << 20) + 8, (1 << 20) + 0x7f8, (1 << 20) + 0x7fc, (1 << 20) + 0x800,
                 (1 << 20) + 0x802, (1 << 20) + 0x804, (1 << 20) + 0x808, (1 << 20) + 4096, (1 << 20) + 4096 + 0x7fc,
                 (1 << 20) + 4096 + 0x800, (1 << 20) + 2 * 4096 + 4],
    }

    def group(self, L):
        """A transfer, its target label and a gap that puts them at a boundary distance."""
        self.tags.add('group')
        kind = self.weighted([('b', self.p['w_branch']), ('j', self.p['w_jal']), ('call', self.p['w_calltail']),
                              ('cb', self.p['w_cinsn']), ('cj', self.p['w_cinsn'])])
        if kind == 'b':
            t = self.branch_insn(L)
        elif kind == 'j':
            t = self.jump_insn(L)
        elif kind == 'call':
            t = ir.Pseudo(self.pick(['call', 'tail']), [L])
        elif kind == 'cb':
            self.tags.add('explicit_c')
            t = ir.Insn(self.pick(['c.beqz', 'c.bnez']), {'rs1': self.reg(self.i(8, 15)), 'imm': ir.Off(L)})
        else:
            self.tags.add('explicit_c')
            t = ir.Insn(self.pick(['c.j', 'c.jal']), {'imm': ir.Off(L)})
        dists = self.DIST[kind]
        if not self.p['far']:
            dists = [d for d in dists if d < 5000]
        if not self.p['big_gaps']:
            dists = [d for d in dists if d < 300]
        d = self.pick(dists)
        d += self.pick([0, 0, 0, 2, -2, 4, -4, 6, -6])
        fwd = self.chance(0.5)
        fill = self.filler(self.i(0, 3))
        fsz = sum(pess_size(x) for x in fill)
        limit = {'cb': 254, 'b': 4094, 'cj': 2046, 'j': (1 << 20) - 2, 'call': 1 << 40}[kind]
        if d > limit - 64 or (not fwd and d > limit - 60):
            self.expected_ok = False
        if d >= 2040:
            self.tags.add('dist>=2K')
        if d >= (1 << 20) - 64:
            self.tags.add('dist>=1M')
        if fwd:
            gap = max(0, d - pess_size(t) - fsz)
            gap -= gap % 2
            body = [t] + fill + ([ir.Gap(gap)] if gap else []) + [ir.Label(L)]
        else:
            gap = max(0, d - fsz)
            gap -= gap % 2
            body = [ir.Label(L)] + ([ir.Gap(gap)] if gap else []) + fill + [t]
        return body

    # -- whole program -----------------------------------------------------------------------
    def one_item(self):
        p = self.p
        kind = self.weighted([('alu', p['w_alu']), ('imm', p['w_imm']), ('shift', p['w_shift']), ('load', p['w_load']),
                              ('store', p['w_store']), ('upper', p['w_upper']), ('sys', p['w_sys']),
                              ('pseudo', p['w_pseudo']), ('li', p['w_li']), ('cinsn', p['w_cinsn']),
                              ('data', p['w_data']), ('align', p['w_align']),
                              ('transfer', (p['w_branch'] + p['w_jal'] + p['w_calltail']) if self.labels else 0)])
        if kind == 'alu':
            return [self.insn_alu()]
        if kind == 'imm':
            return [self.insn_imm()]
        if kind == 'shift':
            return [self.insn_shift()]
        if kind == 'load':
            return [self.insn_load()]
        if kind == 'store':
            return [self.insn_store()]
        if kind == 'upper':
            if self.chance(0.15):
                return self.auipc_pair()
            return [self.insn_upper()]
        if kind == 'sys':
            return [self.insn_sys()]
        if kind == 'pseudo':
            return [self.pseudo_simple()]
        if kind == 'li':
            return [ir.Pseudo('li', [self.reg(), self.li_value()])]
        if kind == 'cinsn':
            return [self.insn_c()]
        if kind == 'data':
            d = self.data_item()
            self.tags.add('data')
            if d.size() % 2 and True:
                # odd-sized data is followed by an even align before the next instruction (docs: alignment
                # is the programmer's job)
                self.tags.add('odd_data')
                return [d, ir.Align(self.pick([2, 4, 4, 8]))]
            return [d]
        if kind == 'align':
            self.tags.add('align')
            a = self.align_item()
            if a.n % 2:
                return [a, ir.Align(self.pick([2, 4]))]
            if self.chance(0.25):
                return [a, ir.Align(a.n)]      # the same alignment again: already aligned, no byte may be added
            return [a]
        if self.chance(0.12):
            return [self.numeric_transfer()]
        if self.addr_consts and self.chance(0.12):
            return [self.const_transfer()]
        return [self.transfer(self.label())]

    def build(self):
        import random
        p = self.p
        self.seed = self.draw(st.integers(0, 2 ** 64 - 1))
        self.rnd = random.Random(self.seed)
        nL = self.i(*p['n_labels'])
        self.labels = self.rnd.sample(LABEL_NAMES, nL)
        nC = self.i(*p['n_consts'])
        cnames = self.rnd.sample(CONST_NAMES, nC)
        for n in cnames:
            self.add_const(n)
        n_items = self.i(*p['n_items'])
        unplaced = list(self.labels)
        blocks = []
        # crafted transfer groups claim labels first
        while unplaced and p['w_group'] and self.chance(p['w_group'] / 6.0) and len(blocks) < 3:
            blocks.append(self.group(unplaced.pop()))
        # the body is a list of units; labels, groups and constants are only spliced between units so that
        # nothing ever separates odd-sized data from the align that follows it
        body = []
        for _ in range(n_items):
            body.append(self.one_item())
        for blk in blocks:
            pos = self.i(0, len(body))
            body.insert(pos, blk)
        for L in unplaced:
            pos = self.i(0, len(body))
            body.insert(pos, [ir.Label(L)])
        # constants anywhere (they are resolved in a separate, earlier pass), in definition order
        pos_list = sorted(self.i(0, len(body)) for _ in self.consts)
        for off, (pos, c) in enumerate(zip(pos_list, self.consts)):
            body.insert(pos + off, [c])
        self.items = [it for unit in body for it in unit]
        self.tune_countdowns()
        self.tune_const_offsets()
        self.repair_ranges()
        return Program(self.items, sorted(self.tags), self.expected_ok)

    def tune_countdowns(self):
        """li rd, C - L: choose C so that the value sits just inside the 12-bit range while L is still at its pessimistic
        offset and leaves it as soon as L moves down by a few bytes (a size decision taken too early then goes wrong)."""
        o, labpos = 0, {}
        for it in self.items:
            if it.kind == 'label':
                labpos[it.name] = o
            o += pess_size(it)
        for it in self.items:
            if it.kind == 'pseudo' and it.name == 'li' and isinstance(it.ops[1], ir.Bin) and it.ops[1].op == '-' \
                    and isinstance(it.ops[1].a, ir.Lit) and isinstance(it.ops[1].b, ir.LRef) and self.chance(0.7):
                L = it.ops[1].b.name
                it.ops[1] = ir.Bin('-', ir.Lit(2047 + labpos.get(L, 0) - self.pick([0, 0, 2, 4, 6, 8, 12])), ir.LRef(L))
                self.tags.add('li_countdown_at_range_edge')

    def tune_const_offsets(self):
        """%offset(K), K an address constant that nothing else uses: choose K so that the offset sits on an edge of a compression
        or size decision (0, +-32, 256, 2048 ...) while the item is still at its pessimistic place - it grows as soon as earlier
        items shrink, so a decision taken on the early value goes wrong."""
        def crefs(v, out):
            if isinstance(v, ir.OffC):
                return
            if isinstance(v, ir.CRef):
                out.add(v.name)
            for attr in ('a', 'b', 'v', 'base'):
                x = getattr(v, attr, None)
                if isinstance(x, ir.V):
                    crefs(x, out)

        def offcs(v, out):
            if isinstance(v, ir.OffC):
                out.add(v.name)
            for attr in ('a', 'b', 'v', 'base'):
                x = getattr(v, attr, None)
                if isinstance(x, ir.V):
                    offcs(x, out)
        plain, first, o = set(), {}, 0
        for it in self.items:
            vals = list(it.ops.values()) if it.kind == 'insn' else list(it.ops) if it.kind == 'pseudo' else [it.value] if it.kind in ('short', 'pack') else \
                [it.value] if (it.kind == 'const' and it.value is not None) else []
            for v in vals:
                if isinstance(v, ir.V):
                    crefs(v, plain)
                    got = set()
                    offcs(v, got)
                    for n in got:
                        first.setdefault(n, o)
                if isinstance(v, ir.Reg) and v.alias:
                    plain.add(v.alias)
            o += pess_size(it)
        # the same for %position(L, literal) written directly as a 12-bit immediate: choose the literal so that the value is 0 / on an
        # RVC range edge while L is still at its pessimistic place (the label moves down later, the value with it)
        o, labpos = 0, {}
        for it in self.items:
            if it.kind == 'label':
                labpos[it.name] = o
            o += pess_size(it)
        for it in self.items:
            if it.kind == 'insn' and it.mn in ('addi', 'andi', 'lw', 'jalr', 'sw') and isinstance(it.ops.get('imm'), ir.Pos) \
                    and isinstance(it.ops['imm'].base, ir.Lit) and it.ops['imm'].name in labpos and self.chance(0.6):
                want = self.pick([0, 0, 0, 4, 8, 31, 32, -32, 124, 128, 16, 64])
                it.ops['imm'] = ir.Pos(it.ops['imm'].name, ir.Lit(want - labpos[it.ops['imm'].name]))
                self.tags.add('position_value_at_decision_edge')
        for c in self.consts:
            if c.name in first and c.name not in plain and c.name in self.addr_consts and self.chance(0.6):
                newv = max(0, first[c.name] + self.pick([0, 0, 0, 2, 4, 30, 32, 62, 64, 124, 128, 252, 254, 256, 2044, 2046, 2048, -2, -32, -34, -256, -258, -2048, -2050]))
                newv -= newv % 2
                c.value = ir.Lit(newv)
                self.cvals[c.name] = newv
                self.tags.add('const_offset_at_decision_edge')

    def repair_ranges(self):
        """Keep non-crafted transfers legal by construction: retarget a transfer whose pessimistic distance
        exceeds a safe range to the nearest label, or turn it into a nop if no label is in range."""
        items = self.items
        offs, o = [], 0
        for it in items:
            offs.append(o)
            o += pess_size(it)
        labpos = {it.name: offs[i] for i, it in enumerate(items) if it.kind == 'label'}
        in_group = set()
        for i, it in enumerate(items):
            tgt, limit = None, None
            if it.kind == 'insn' and (it.mn in rvref.BRANCHES or it.mn == 'jal') and isinstance(it.ops['imm'], ir.OffC):
                # target is a constant address: out of reach -> nop
                if abs(self.cvals[it.ops['imm'].name] - offs[i]) > (3900 if it.mn != 'jal' else (1 << 20) - 4096):
                    items[i] = ir.Pseudo('nop', [])
                continue
            if it.kind == 'insn' and it.mn in rvref.BRANCHES and isinstance(it.ops['imm'], ir.Off):
                tgt, limit = it.ops['imm'].name, 3900
            elif it.kind == 'insn' and it.mn == 'jal' and isinstance(it.ops['imm'], ir.Off):
                tgt, limit = it.ops['imm'].name, (1 << 20) - 4096
            elif it.kind == 'pseudo' and it.name in ('beqz', 'bnez', 'blez', 'bgez', 'bltz', 'bgtz', 'bgt', 'ble', 'bgtu', 'bleu'):
                tgt, limit = it.ops[-1], 3900
            elif it.kind == 'pseudo' and it.name in ('j', 'jal'):
                tgt, limit = it.ops[0], (1 << 20) - 4096
            if tgt is None:
                continue
            if tgt not in labpos:
                # a constant (absolute) target: out of reach -> nop
                if not isinstance(self.cvals.get(tgt), int) or abs(self.cvals[tgt] - offs[i]) > limit:
                    items[i] = ir.Pseudo('nop', [])
                continue
            # crafted groups are adjacent to their own label by construction; recognise them by distance class
            d = abs(labpos[tgt] - offs[i])
            if d <= limit:
                continue
            if 'group' in self.tags and self._is_group_transfer(i, tgt):
                continue
            near = sorted(labpos, key=lambda n: (abs(labpos[n] - offs[i]), n))
            if near and abs(labpos[near[0]] - offs[i]) <= limit:
                self._retarget(it, near[0])
            else:
                items[i] = ir.Pseudo('nop', [])

    def _is_group_transfer(self, i, tgt):
        # the transfer of a group is the first or last item of a block whose other end is its label
        items = self.items
        j = i + 1
        while j < len(items) and items[j].kind != 'label':
            j += 1
            if j - i > 6:
                break
        if j < len(items) and items[j].kind == 'label' and items[j].name == tgt and j - i <= 6:
            return True
        j = i - 1
        while j >= 0 and items[j].kind != 'label':
            j -= 1
            if i - j > 6:
                break
        return j >= 0 and items[j].kind == 'label' and items[j].name == tgt and i - j <= 6

    @staticmethod
    def _retarget(it, name):
        if it.kind == 'insn':
            it.ops['imm'] = ir.Off(name, bare=it.ops['imm'].bare)
        else:
            it.ops[-1 if len(it.ops) > 1 else 0] = name


class Program:
    def __init__(self, items, tags=(), expected_ok=True):
        self.items = items
        self.tags = list(tags)
        self.expected_ok = expected_ok

    def text(self, style=None):
        return ir.render(self.items, style)[0]

    def __repr__(self):
        return 'Program(%d items, tags=%s)\n%s' % (len(self.items), self.tags, self.text()[:4000])


@st.composite
def programs(draw, prof=None):
    return Builder(draw, prof or DEFAULT_PROFILE).build()
