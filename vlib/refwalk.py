"""Validity predicate for assembled programs: walks IR items and output bytes together.

Never looks inside the assembler.  Returns typed discrepancies; each check owns some tags.
"""
from . import ir, rvref

M32 = 0xffffffff

TRANSFER_INSN = set(rvref.BRANCHES) | {'jal', 'c.j', 'c.jal', 'c.beqz', 'c.bnez'}
TRANSFER_PSEUDO = {'beqz', 'bnez', 'blez', 'bgez', 'bltz', 'bgtz', 'bgt', 'ble', 'bgtu', 'bleu', 'j', 'jal', 'call',
                   'tail'}
DATA_KINDS = ('seq', 'short', 'pack', 'str', 'gap', 'incbytes')


class Disc:
    def __init__(self, item, tags, detail, off=None):
        self.item, self.tags, self.detail, self.off = item, set(tags), detail, off

    def __repr__(self):
        return 'Disc(item=%r, off=%r, tags=%s, %s)' % (self.item, self.off, sorted(self.tags), self.detail)

    def sig(self):
        return '+'.join(sorted(self.tags))


class Walk:
    def __init__(self):
        self.seg = []        # per item: (off, size, [ (off, len, cls, mn, fields, base) ... ])
        self.labels = {}
        self.consts = {}
        self.discs = []
        self.complete = False

    @property
    def ok(self):
        return not self.discs


def data_bytes(it, ctx):
    """Expected byte image of a data item, or raises ValueError when the value does not fit."""
    if it.kind == 'seq':
        w = ir.SEQ_WIDTH[it.name]
        out = b''
        for v in it.values:
            if not -(1 << (8 * w - 1)) <= v < (1 << (8 * w)):
                raise ValueError('value %d does not fit %d bytes' % (v, w))
            out += (v & ((1 << (8 * w)) - 1)).to_bytes(w, 'little')
        return out
    if it.kind == 'short':
        w = ir.SHORT_WIDTH[it.name]
        v = it.value.eval(ctx)
        if not -(1 << (8 * w - 1)) <= v < (1 << (8 * w)):
            raise ValueError('value %d does not fit %d bytes' % (v, w))
        return (v & ((1 << (8 * w)) - 1)).to_bytes(w, 'little')
    if it.kind == 'pack':
        order, code = it.fmt[0], it.fmt[1]
        w = ir.PACK_WIDTH[code]
        v = it.value.eval(ctx)
        if code.islower():
            if not -(1 << (8 * w - 1)) <= v < (1 << (8 * w - 1)):
                raise ValueError('value %d does not fit signed %d bytes' % (v, w))
        else:
            if not 0 <= v < (1 << (8 * w)):
                raise ValueError('value %d does not fit unsigned %d bytes' % (v, w))
        return (v & ((1 << (8 * w)) - 1)).to_bytes(w, 'little' if order == '<' else 'big')
    return it.data()


def _opval(x, ctx):
    if isinstance(x, ir.Reg):
        return x.n
    if isinstance(x, int):
        return x
    return x.eval(ctx)


def expected_base(it, ctx):
    """The base (32-bit semantics) instruction an Insn item names, with operands evaluated against ctx.
    Returns (base_tuple, must_be_16bit)."""
    f = {k: _opval(v, ctx) for k, v in it.ops.items()}
    if it.mn.startswith('c.'):
        if it.mn == 'c.lui':
            # both spellings of the upper immediate are documented
            if 0xfffe0 <= f['imm'] <= 0xfffff:
                f['imm'] -= 1 << 20
        return rvref.expand16(it.mn, f), True
    mn = it.mn
    fmt = rvref.fmt_of(mn)
    if fmt == 'U' and 0x80000 <= f['imm'] <= 0xfffff:
        f['imm'] -= 1 << 20
    if mn == 'lr.w':
        f['rs2'] = 0
    if fmt == 'A':
        f.setdefault('aq', 0)
        f.setdefault('rl', 0)
    if fmt == 'FENCE':
        f.setdefault('fm', 0)
    return (mn, f), False


def item_tags(it):
    tags = set()
    if it.kind == 'insn':
        ops = list(it.ops.values())
        if it.mn in TRANSFER_INSN and any(isinstance(o, ir.Off) for o in ops):   # (ir.OffC is an ir.Off)
            tags.add('transfer_target')
        elif any(getattr(o, 'label_dep', False) for o in ops):
            tags.add('label_value')
        if any(getattr(o, 'const_dep', False) or (isinstance(o, ir.Reg) and o.alias) for o in ops):
            tags.add('const_value')
    elif it.kind == 'pseudo':
        tags.add('pseudo_effect')
        if it.name in TRANSFER_PSEUDO:
            tags.add('transfer_target')
        elif any(getattr(o, 'label_dep', False) for o in it.ops):
            tags.add('label_value')
        if any(getattr(o, 'const_dep', False) or (isinstance(o, ir.Reg) and o.alias) for o in it.ops):
            tags.add('const_value')
    elif it.kind in ('short', 'pack'):
        if it.value.label_dep:
            tags.add('label_value')
        if it.value.const_dep:
            tags.add('const_value')
    return tags


# ---------------------------------------------------------------------------
# pseudo-instruction semantics (docs/instruction_reference.rst)

def _s(v):
    return rvref.sx(v, 32)


def pseudo_model(it, regs, pc, end, ctx):
    """Documented effect of a pseudo-instruction: returns (regs', next_pc, events, scratch) where
    scratch is the set of registers whose final value is unspecified."""
    r = list(regs)
    name, ops = it.name, it.ops
    nxt, ev, scratch = end, [], set()

    def wr(rd, v):
        if rd != 0:
            r[rd] = v & M32

    def lab(x):
        # (a constant as jump / call target is an absolute address)
        return ctx.labels[x] if x in ctx.labels else ctx.consts[x]

    if name == 'nop':
        pass
    elif name == 'li':
        wr(ops[0].n, ops[1].eval(ctx))
    elif name == 'mv':
        wr(ops[0].n, regs[ops[1].n])
    elif name == 'not':
        wr(ops[0].n, ~regs[ops[1].n])
    elif name == 'neg':
        wr(ops[0].n, -regs[ops[1].n])
    elif name == 'seqz':
        wr(ops[0].n, int(regs[ops[1].n] == 0))
    elif name == 'snez':
        wr(ops[0].n, int(regs[ops[1].n] != 0))
    elif name == 'sltz':
        wr(ops[0].n, int(_s(regs[ops[1].n]) < 0))
    elif name == 'sgtz':
        wr(ops[0].n, int(_s(regs[ops[1].n]) > 0))
    elif name in ('beqz', 'bnez', 'blez', 'bgez', 'bltz', 'bgtz'):
        v = _s(regs[ops[0].n])
        c = {'beqz': v == 0, 'bnez': v != 0, 'blez': v <= 0, 'bgez': v >= 0, 'bltz': v < 0, 'bgtz': v > 0}[name]
        if c:
            nxt = lab(ops[1])
    elif name in ('bgt', 'ble', 'bgtu', 'bleu'):
        a, b = regs[ops[0].n], regs[ops[1].n]
        c = {'bgt': _s(a) > _s(b), 'ble': _s(a) <= _s(b), 'bgtu': a > b, 'bleu': a <= b}[name]
        if c:
            nxt = lab(ops[2])
    elif name == 'j':
        nxt = lab(ops[0])
    elif name == 'jal':
        wr(1, end)
        nxt = lab(ops[0])
    elif name == 'jr':
        nxt = regs[ops[0].n] & ~1 & M32
    elif name == 'jalr':
        nxt = regs[ops[0].n] & ~1 & M32
        wr(1, end)
    elif name == 'ret':
        nxt = regs[1] & ~1 & M32
    elif name == 'call':
        wr(1, end)
        nxt = lab(ops[0])
    elif name == 'tail':
        nxt = lab(ops[0])
        scratch.add(6)
    elif name == 'fence':
        ev.append(('fence', 15, 15, 0))
    else:
        raise AssertionError(name)
    return r, nxt & M32, ev, scratch


def run_segment(insns, regs, start, end):
    """Execute the instructions of one segment from `start` until control leaves [start, end)."""
    pc, r, events = start, list(regs), []
    for (o, ln, cls, mn, f, base) in insns:   # expansions are straight-line: each instruction at most once
        if pc != o:
            break
        if base is None:
            return None
        r, pc, ev = rvref.step(r, pc, base, ln)
        events += ev
    return r, pc, events


PSEUDO_REGFILES = rvref.probe_regfiles(10, salt=7)


def check_pseudo(it, insns, off, end, ctx):
    scratch_allowed = None
    for regs in PSEUDO_REGFILES:
        want_r, want_pc, want_ev, scratch = pseudo_model(it, regs, off, end, ctx)
        got = run_segment(insns, regs, off, end)
        if got is None:
            return 'undecodable instruction in the expansion'
        r, pc, ev = got
        if ev != want_ev:
            return 'events %r, documented %r' % (ev, want_ev)
        if pc != want_pc:
            return 'continues at 0x%x, documented 0x%x' % (pc, want_pc)
        for i in range(32):
            if i in scratch:
                continue
            if r[i] != want_r[i]:
                return 'x%d = 0x%x, documented 0x%x (x%d was 0x%x)' % (i, r[i], want_r[i], i, regs[i])
    return None


# ---------------------------------------------------------------------------

def _read_insn(out, off):
    ln, cls, mn, f, base = rvref.decode_at(out, off)
    return (off, ln, cls, mn, f, base)


def _segment(items, out, li_choice):
    """Phase A.  Returns (Walk, ambiguous_li_items)."""
    w = Walk()
    off = 0
    amb = []
    n = len(out)
    for i, it in enumerate(items):
        k = it.kind
        if k == 'label':
            w.labels[it.name] = off
            w.seg.append((off, 0, []))
        elif k in ('const', 'raw'):
            w.seg.append((off, 0, []))
        elif k in DATA_KINDS:
            sz = it.size()
            if off + sz > n:
                w.discs.append(Disc(i, {'size/concat', 'data_bytes'}, 'output ends inside a %d byte data item at offset %d (len %d)' % (sz, off, n), off))
                return w, amb
            w.seg.append((off, sz, []))
            off += sz
        elif k == 'align':
            pad = (-off) % it.n
            if off + pad > n:
                w.discs.append(Disc(i, {'size/concat', 'align_pad'}, 'output ends inside the padding of align %d at offset %d' % (it.n, off), off))
                return w, amb
            w.seg.append((off, pad, []))
            off += pad
        elif k in ('insn', 'pseudo'):
            count = 1
            first = _read_insn(out, off)
            if first[1] == 0:
                w.discs.append(Disc(i, {'size/concat'} | item_tags(it), 'output ends where an instruction is expected (offset %d, len %d)' % (off, n), off))
                return w, amb
            if k == 'pseudo' and it.name in ('call', 'tail'):
                if first[5] is not None and first[5][0] == 'auipc':
                    count = 2
            elif k == 'pseudo' and it.name == 'li':
                if first[5] is not None and first[5][0] == 'lui':
                    nxt = _read_insn(out, off + first[1])
                    rd = first[5][1]['rd']
                    looks = (nxt[5] is not None and nxt[5][0] in ('addi', 'add')
                             and nxt[5][1].get('rd') == rd)
                    default = 2 if looks else 1
                    if looks:
                        amb.append(i)
                    count = li_choice.get(i, default)
            insns = [first]
            o = off + first[1]
            for _ in range(count - 1):
                x = _read_insn(out, o)
                if x[1] == 0:
                    w.discs.append(Disc(i, {'size/concat'} | item_tags(it), 'output ends inside a pseudo-instruction expansion at offset %d' % o, off))
                    return w, amb
                insns.append(x)
                o += x[1]
            w.seg.append((off, o - off, insns))
            off = o
        else:
            raise AssertionError(k)
    if off != n:
        w.discs.append(Disc(len(items), {'size/concat'}, 'walk consumed %d bytes, output has %d' % (off, n), off))
        return w, amb
    w.complete = True
    return w, amb


def _prev_sized(items, seg, i):
    j = i - 1
    while j >= 0 and items[j].kind in ('label', 'const', 'raw'):
        j -= 1
    return j


def _resync(items, out, w, i, off):
    """True when item i's expected instruction (first one, for a pseudo: any decodable start) is found at
    off + d for a small d != 0 - evidence that an earlier item's size, not this instruction, is wrong."""
    it = items[i]
    if it.kind != 'insn':
        return False
    for dlt in list(range(-64, 65)):
        o = off + dlt
        if dlt == 0 or o < 0 or o + 2 > len(out):
            continue
        try:
            want, _ = expected_base(it, ir.Ctx(w.consts, w.labels, o))
        except KeyError:
            return False
        ln, cls, mn, f, base = rvref.decode_at(out, o)
        if base is not None and base == want:
            return True
    return False


def _phase_b(items, out, w, labels_rep, consts_rep, first_only=True):
    discs = []
    consts = w.consts
    for i, it in enumerate(items):
        if i >= len(w.seg):
            break
        off, sz, insns = w.seg[i]
        ctx = ir.Ctx(consts, w.labels, off)
        k = it.kind
        d = None
        try:
            if k in DATA_KINDS:
                try:
                    want = data_bytes(it, ctx)
                except ValueError as e:
                    d = Disc(i, {'data_bytes'} | item_tags(it), 'accepted although %s' % e, off)
                else:
                    got = bytes(out[off:off + sz])
                    if got != want:
                        d = Disc(i, {'data_bytes'} | item_tags(it), 'data item bytes %s, expected %s' % (got[:24].hex(), want[:24].hex()), off)
            elif k == 'align':
                got = bytes(out[off:off + sz])
                if got.strip(b'\0'):
                    d = Disc(i, {'align_pad'}, 'align %d at offset %d: padding bytes %s are not zero' % (it.n, off, got[:16].hex()), off)
            elif k == 'insn':
                (o, ln, cls, mn, f, base) = insns[0]
                want, must16 = expected_base(it, ctx)
                tags = {'insn_meaning'} | item_tags(it)
                if ln == 2 and cls != rvref.LEGAL:
                    d = Disc(i, tags | {'illegal_rvc'}, '16-bit code 0x%04x is %s, not a legal RV32C instruction (expected %r)' % (out[o] | out[o + 1] << 8, cls, want), off)
                elif base is None:
                    d = Disc(i, tags, 'word at offset %d does not decode (expected %r)' % (o, want), off)
                elif must16 and ln != 2:
                    d = Disc(i, tags, 'explicit %s emitted as %d bytes' % (it.mn, ln), off)
                elif base != want:
                    try:
                        rvref.enc32(*want)
                        same = rvref.same_effect(want, ln, base, ln, pc=off)
                    except ValueError:
                        same = False
                    if not same:
                        d = Disc(i, tags, 'decodes to %r, source says %r' % (base, want), off)
            elif k == 'pseudo':
                if any(x[5] is None for x in insns):
                    bad = [x for x in insns if x[5] is None][0]
                    tags = item_tags(it) | ({'illegal_rvc'} if bad[1] == 2 else set()) | {'insn_meaning'}
                    d = Disc(i, tags, 'expansion of %s contains an undecodable/illegal instruction at offset %d (%s)' % (it.name, bad[0], bad[2]), off)
                else:
                    why = check_pseudo(it, insns, off, off + sz, ctx)
                    if why:
                        d = Disc(i, item_tags(it) | {'insn_meaning'}, '%s %s: %s; expansion %r' % (it.name, [getattr(x, 'n', x) if not hasattr(x, 'key') or isinstance(x, ir.Reg) else x.key() for x in it.ops], why, [x[5] for x in insns]), off)
        except KeyError as e:
            d = Disc(i, {'harness'}, 'oracle could not evaluate item: missing %r' % (e,), off)
        if d is not None:
            # a mismatch right after an align / data item may really be a size problem of that item:
            # probe whether the expected instruction is found at a nearby offset instead
            j = _prev_sized(items, w.seg, i)
            if k in ('insn', 'pseudo') and j >= 0 and items[j].kind in DATA_KINDS + ('align',):
                if _resync(items, out, w, i, off):
                    d.tags.add('size/concat')
                    d.tags.add('align_pad' if items[j].kind == 'align' else 'data_bytes')
            if k in DATA_KINDS and j >= 0 and items[j].kind == 'align':
                want_len = len(out)
                for dlt in range(-16, 17):
                    try:
                        if dlt and 0 <= off + dlt and bytes(out[off + dlt:off + dlt + sz]) == data_bytes(it, ir.Ctx(consts, w.labels, off + dlt)):
                            d.tags.add('align_pad')
                            d.tags.add('size/concat')
                            break
                    except ValueError:
                        break
            discs.append(d)
            if first_only:
                return discs
    if labels_rep is not None:
        for name, o in w.labels.items():
            if labels_rep.get(name) != o:
                discs.append(Disc(None, {'label_table'}, 'label %s reported at %r, first byte after it is at %d' % (name, labels_rep.get(name), o)))
                if first_only:
                    return discs
        extra = set(labels_rep) - set(w.labels)
        if extra:
            discs.append(Disc(None, {'label_table'}, 'label table has unknown labels %r' % sorted(extra)))
    if consts_rep is not None:
        for name, v in consts.items():
            if consts_rep.get(name) != v:
                discs.append(Disc(None, {'const_value'}, 'constant %s reported %r, own evaluation %r' % (name, consts_rep.get(name), v)))
                if first_only:
                    return discs
    return discs


def walk(items, out, labels_rep=None, consts_rep=None):
    """Judge assembled output against the IR.  Returns a Walk whose .discs is empty when everything holds."""
    consts = ir.eval_consts(items)
    first = None
    choice = {}
    tried = 0
    pending = [dict()]
    seen = set()
    while pending and tried < 16:
        choice = pending.pop(0)
        key = tuple(sorted(choice.items()))
        if key in seen:
            continue
        seen.add(key)
        tried += 1
        w, amb = _segment(items, out, choice)
        w.consts = consts
        if not w.discs:
            w.discs = _phase_b(items, out, w, labels_rep, consts_rep)
        if not w.discs:
            return w
        if first is None:
            first = w
        for a in amb:
            if a not in choice:
                c2 = dict(choice)
                c2[a] = 1
                pending.append(c2)
    return first
