"""Shared driver for program-level checks: generate IR programs with Hypothesis on 16 shards, assemble them
with the repository's assembler, judge, minimise failures (ddmin over IR items), write replays."""
import base64
import json
import pickle
import traceback

from hypothesis import strategies as st

from . import env, ir, refwalk, strategies as S


def assemble(asm, src, compress=False, include_dirs=None, labels=None, constants=None):
    """('ok', bytes, labels, consts) | ('refused', AssemblerError) | ('exc', exception)"""
    labels = {} if labels is None else labels
    consts = {} if constants is None else constants
    try:
        out = asm.assemble(src, labels=labels, constants=consts, compress=compress, include_dirs=include_dirs)
        return ('ok', bytes(out), labels, consts)
    except asm.AssemblerError as e:
        return ('refused', e)
    except Exception as e:  # raw exception escaping the assembler: still a refusal of the program
        return ('exc', e)


def exc_sig(e):
    tb = traceback.extract_tb(e.__traceback__)
    frame = next((f for f in reversed(tb) if 'bronzebeard' in f.filename), tb[-1] if tb else None)
    return '%s@%s' % (type(e).__name__, frame.name if frame else '?')


def pack_prog(prog):
    return base64.b64encode(pickle.dumps(prog.items)).decode()


def unpack_items(blob):
    return pickle.loads(base64.b64decode(blob))


def case_of(prog, compress, extra=None):
    c = {'source': prog.text(), 'compress': compress, 'ir': pack_prog(prog), 'tags': prog.tags}
    if extra:
        c.update(extra)
    return c


def minimise(items, still_fails, budget=250):
    """Greedy one-at-a-time item removal (labels that are still referenced stay)."""
    items = list(items)
    calls = 0
    changed = True
    while changed and calls < budget:
        changed = False
        i = len(items) - 1
        while i >= 0 and calls < budget:
            it = items[i]
            cand = items[:i] + items[i + 1:]
            if it.kind == 'label' and _label_used(cand, it.name):
                i -= 1
                continue
            if it.kind == 'const' and _const_used(cand, it.name):
                i -= 1
                continue
            calls += 1
            try:
                ok = still_fails(cand)
            except Exception:
                ok = False
            if ok:
                items = cand
                changed = True
            i -= 1
    # shrink gaps
    for i, it in enumerate(items):
        if it.kind == 'gap' and calls < budget + 40:
            for n in (0, 2, (it.n // 4) * 2, it.n - 2, it.n - 4):
                if 0 <= n < it.n:
                    cand = items[:i] + ([ir.Gap(n)] if n else []) + items[i + 1:]
                    calls += 1
                    try:
                        if still_fails(cand):
                            items = cand
                            break
                    except Exception:
                        pass
    return items


def _vals(it):
    if it.kind == 'insn':
        return list(it.ops.values())
    if it.kind == 'pseudo':
        return list(it.ops)
    if it.kind in ('short', 'pack'):
        return [it.value]
    if it.kind == 'const' and it.value is not None:
        return [it.value]
    return []


def _label_used(items, name):
    for it in items:
        for v in _vals(it):
            if isinstance(v, str) and v == name:
                return True
            if hasattr(v, 'labels') and name in v.labels():
                return True
    return False


def _const_names(v):
    if isinstance(v, (ir.CRef, ir.OffC)):
        return {v.name}
    if isinstance(v, ir.PosC):
        return {v.name} | _const_names(v.base)
    out = set()
    for attr in ('a', 'b', 'v', 'base'):
        x = getattr(v, attr, None)
        if isinstance(x, ir.V):
            out |= _const_names(x)
    return out


def _const_used(items, name):
    for it in items:
        for v in _vals(it):
            if isinstance(v, ir.Reg) and v.alias == name:
                return True
            if isinstance(v, ir.V) and name in _const_names(v):
                return True
    return False


def shard_runner(prop, prof, n, shard, judge_name, module):
    """Runs inside a worker: n Hypothesis examples of programs(prof) through module.<judge_name>."""
    import importlib
    mod = importlib.import_module(module)
    judge = getattr(mod, judge_name)
    res = env.Result()
    known = env.load_known()
    seedv = env.derive(env.seed_value(), prop, shard)

    def body(prog, r):
        judge(prog, r)

    env.run_hypothesis(body, S.programs(prof), n, seedv, res, known, prop, shrink=False)
    # minimise what was found
    for f in res.failures:
        case = f['case']
        if 'ir' not in case:
            continue
        items = unpack_items(case['ir'])

        def still(cand, sig=f['sig']):
            r2 = env.Result()
            try:
                judge(S.Program(cand, case.get('tags', []), True), r2)
            except env.CaseFailure as cf:
                return cf.sig == sig
            return False

        small = minimise(items, still)
        if len(small) < len(items):
            r2 = env.Result()
            try:
                judge(S.Program(small, case.get('tags', []), True), r2)
            except env.CaseFailure as cf:
                f['case'], f['what'] = cf.case, cf.what
    return res


def run_sharded(chk, prop, prof, n_total, judge_name, module, shards=None):
    shards = shards or env.NPROC
    per = max(1, n_total // shards)
    jobs = [(prop, prof, per, s, judge_name, module) for s in range(shards)]
    chk.merge(env.run_shards(shard_runner, jobs))


def run_corpus(chk, prop, judge):
    """Seconds-long replay tier: the committed minimal cases of corpus/<ID>/ are judged first, without Hypothesis."""
    import glob
    import os
    for path in sorted(glob.glob(os.path.join(env.VERIF, 'corpus', prop, '*.json'))):
        with open(path) as f:
            body = json.load(f)
        case = body['case']
        prog = S.Program(unpack_items(case['ir']), case.get('tags', []), True)
        chk.res.count('corpus_cases')
        try:
            judge(prog, chk.res)
        except env.CaseFailure as cf:
            chk.res.fail(cf.sig, cf.what, cf.case)


def replay_program(path, judge):
    with open(path) as f:
        body = json.load(f)
    case = body['case']
    items = unpack_items(case['ir'])
    prog = S.Program(items, case.get('tags', []), True)
    res = env.Result()
    try:
        judge(prog, res)
    except env.CaseFailure as cf:
        k = env.match_known(env.load_known(), body['property'], cf.sig, cf.case)
        if k is not None:
            print('KNOWN-FINDING: property=%s %s [%s]' % (body['property'], k.get('what', ''), k['id']))
            return env.EXIT_OK
        print('VIOLATION property=%s replay=%s' % (body['property'], path))
        print('  signature: %s' % cf.sig)
        print('  ' + str(cf.what)[:800])
        return env.EXIT_VIOLATION
    print('replay holds: %s' % path)
    return env.EXIT_OK
