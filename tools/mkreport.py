#!/venv/bin/python
"""Regenerates the two result tables inside DESIGN.md (between the BEGIN/END markers) from
mutants/results.json and seeded/*/meta.json."""
import glob
import json
import os
import re

HERE = os.path.dirname(os.path.dirname(os.path.abspath(__file__)))


def mutants_table():
    r = json.load(open(os.path.join(HERE, 'mutants', 'results.json')))
    import sys
    sys.path.insert(0, os.path.join(HERE, 'mutants'))
    from catalogue import MUTANTS
    order = {m['id']: i for i, m in enumerate(MUTANTS)}
    best = {}
    for k, v in r.items():
        if 'error' in v:
            continue
        mid, tier = k.rsplit(':', 1)
        b = best.setdefault(mid, {'note': v.get('note', ''), 'tests': v.get('tests_pass'), 'quick': None, 'thorough': None, 'props': v['props']})
        b[tier] = v.get('killed_by', [])
    lines = ['| mutant | intended | repo tests | killed by (quick) | note |', '|---|---|---|---|---|']
    nk = ns = 0
    for mid in sorted(best, key=lambda m: order.get(m, 999)):
        b = best[mid]
        k = b['quick'] if b['quick'] is not None else b['thorough']
        killed = ', '.join(k) if k else ('**survived**' + (' (thorough: ' + ', '.join(b['thorough']) + ')' if b['thorough'] else ''))
        if k:
            nk += 1
        else:
            ns += 1
        lines.append('| `%s` | %s | %s | %s | %s |' % (mid, ', '.join(b['props']), 'pass' if b['tests'] else 'FAIL', killed, b['note'].replace('|', '/')[:110]))
    lines.append('')
    lines.append('%d mutants, %d killed, %d survived (see text for the survivors).' % (nk + ns, nk, ns))
    return '\n'.join(lines)


def seeded_table():
    lines = ['| seeded change | breaks | what it needs to manifest | confirmed | detected by |', '|---|---|---|---|---|']
    n = d = 0
    retired = []
    for mp in sorted(glob.glob(os.path.join(HERE, 'seeded', '*', 'meta.json'))):
        m = json.load(open(mp))
        if m.get('retired'):
            retired.append((m['name'], m['retired']))
            continue
        n += 1
        det = ', '.join(m.get('detected_by', []))
        if det:
            d += 1
        lines.append('| `%s` %s | %s | %s | %s | %s |' % (m['name'], m.get('what_changed', '').replace('|', '/')[:120], m['breaks_property'],
                                                      m.get('needs_to_manifest', '').replace('|', '/')[:150], 'yes' if m.get('confirmed') else 'NO',
                                                      det or ('not detected - ' + m.get('note', '')[:160] if m.get('note') else '**not detected**')))
    lines.append('')
    lines.append('%d independently written changes, %d detected.' % (n, d))
    if retired:
        lines.append('')
        lines.append('Retired (kept under `seeded/` with the results recorded when they were valid, not counted above):')
        for name, why in retired:
            lines.append('* `%s` - %s' % (name, why[len('retired: '):] if why.startswith('retired: ') else why))
    return '\n'.join(lines)


def main():
    p = os.path.join(HERE, 'DESIGN.md')
    s = open(p).read()
    for tag, fn in (('MUTANTS', mutants_table), ('SEEDED', seeded_table)):
        a, b = '<!-- BEGIN %s -->' % tag, '<!-- END %s -->' % tag
        if a in s and b in s:
            s = s[:s.index(a) + len(a)] + '\n' + fn() + '\n' + s[s.index(b):]
    open(p, 'w').write(s)
    print('DESIGN.md tables regenerated')


if __name__ == '__main__':
    main()
