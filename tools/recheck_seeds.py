#!/venv/bin/python
"""Re-run every kept seeded change against the current checks (the checks named in its meta.json) and refresh meta.json.
usage: tools/recheck_seeds.py [--jobs N] [name-substring ...]"""
import concurrent.futures
import glob
import json
import os
import subprocess
import sys

HERE = os.path.dirname(os.path.dirname(os.path.abspath(__file__)))


def one(d):
    m = json.load(open(os.path.join(d, 'meta.json')))
    if m.get('retired') or m.get('frozen'):
        return m['name'], 'retired' if m.get('retired') else 'frozen', [], {}
    checks = sorted({k.split(':')[0] for k in m.get('checks', {})}) or [m['breaks_property']]
    mp = os.path.join(d, 'meta.json')
    backup = open(mp).read()
    m['checks'] = {}
    m['detected_by'] = []
    json.dump(m, open(mp, 'w'), indent=1)
    env = dict(os.environ, VERIF_PROCS='5')
    p = subprocess.run([os.path.join(HERE, 'tools', 'try_seed.py'), m['name'], os.path.join(d, 'patch.diff'), os.path.join(d, 'demo.py'), m['breaks_property'],
                        '--checks', ','.join(checks), '--save'], stdout=subprocess.PIPE, stderr=subprocess.STDOUT, text=True, env=env)
    if p.returncode != 0 or '"checks"' not in p.stdout:
        open(mp, 'w').write(backup)     # never lose what was recorded before
        return m['name'], 'TOOL-ERROR', p.stdout[-200:], {}
    m2 = json.load(open(mp))
    for k in ('note',):
        if k in m and k not in m2:
            m2[k] = m[k]
            json.dump(m2, open(mp, 'w'), indent=1)
    return m2['name'], m2.get('confirmed'), m2.get('detected_by'), {k: v['rc'] for k, v in m2.get('checks', {}).items()}


def main():
    args = [a for a in sys.argv[1:] if not a.startswith('--')]
    jobs = 3
    if '--jobs' in sys.argv:
        jobs = int(sys.argv[sys.argv.index('--jobs') + 1])
        args = [a for a in args if a != str(jobs)]
    dirs = sorted(os.path.dirname(p) for p in glob.glob(os.path.join(HERE, 'seeded', '*', 'meta.json')))
    dirs = [d for d in dirs if not args or any(a in os.path.basename(d) for a in args)]
    with concurrent.futures.ThreadPoolExecutor(jobs) as ex:
        for r in ex.map(one, dirs):
            print(*r)
            sys.stdout.flush()


if __name__ == '__main__':
    main()
