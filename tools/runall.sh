#!/bin/sh
# usage: tools/runall.sh [tier] ; runs every registered check, prints one line per check
cd "$(dirname "$0")/.."
tier=${1:-quick}
for i in 01 02 03 04 05 06 07 08 09 10 11 12 13 14 15 16 17 18 19 20; do
  start=$(date +%s)
  ./check C$i --tier $tier > /tmp/runall_C$i.log 2>&1
  rc=$?
  end=$(date +%s)
  echo "C$i rc=$rc $((end-start))s $(tail -1 /tmp/runall_C$i.log | cut -c1-150)"
done
