"""Coverage-guided byte-level fuzzing of bronzebeard.asm.assemble() (atheris / libFuzzer).  Runs under the tooling interpreter
(python3-vt: atheris is not installable into the repository's 3.12 venv), with PYTHONPATH = the tree under test.

usage: python3-vt tools/fuzz_text.py <corpus-dir> -runs=N -seed=S -max_len=L      (env FUZZ_OUT = file for findings, FUZZ_STATS)

The oracle lives in the target: a source text is either assembled or refused with asm.AssemblerError whose line number lies
inside the text; any other exception is written to FUZZ_OUT as a CANDIDATE (one JSON object per line).  The parent
(checks/c15.py) re-runs every candidate in the repository's own interpreter, minimises it and only then reports it, so this
process never decides a property on its own.
"""
import json
import os
import sys
import traceback

import atheris

with atheris.instrument_imports(include=['bronzebeard']):
    from bronzebeard import asm

OUT = os.environ['FUZZ_OUT']
STATS = os.environ['FUZZ_STATS']
seen = set()
stats = {'execs': 0, 'texts': 0, 'assembled': 0, 'refused': 0, 'candidates': 0, 'asm_file': os.path.realpath(asm.__file__)}


def one(data):
    stats['execs'] += 1
    if stats['execs'] % 5000 == 0:
        with open(STATS, 'w') as f:
            json.dump(stats, f)
    try:
        text = data[1:].decode('utf-8')
    except UnicodeDecodeError:
        return
    # `include` lines read the file system and a text that names an existing path is taken as a file: both are inputs of
    # other checks (C14), not of this target
    if not data or 'include' in text.lower() or os.path.exists(text):
        return
    comp = bool(data[0] & 1)
    stats['texts'] += 1
    try:
        asm.assemble(text, compress=comp)
        stats['assembled'] += 1
    except asm.AssemblerError as e:
        stats['refused'] += 1
        n = getattr(getattr(e, 'line', None), 'number', None)
        nlines = len(text.splitlines()) or 1
        if n is None or not (1 <= n <= nlines):
            key = ('AssemblerError', 'line-out-of-text')
            if key not in seen:
                seen.add(key)
                stats['candidates'] += 1
                with open(OUT, 'a') as f:
                    f.write(json.dumps({'key': list(key), 'source': text, 'compress': comp}) + '\n')
    except BaseException as e:
        tb = traceback.extract_tb(e.__traceback__)
        key = (type(e).__name__, tb[-1].name if tb else '?')
        if key not in seen:
            seen.add(key)
            stats['candidates'] += 1
            with open(OUT, 'a') as f:
                f.write(json.dumps({'key': list(key), 'source': text, 'compress': comp}) + '\n')


atheris.Setup(sys.argv, one)
atheris.Fuzz()
