#!/venv/bin/python
"""Regenerates MANIFEST.json from the table below (single source of truth for the registered checks)."""
import json, os
HERE = os.path.dirname(os.path.dirname(os.path.abspath(__file__)))

CHECKS = {
 # id: (level, technique, text, note, design_ref)
 'C03': ('exploration', 'Hypothesis-generated IR programs + reference decoder/executor walk (refwalk)',
         'Generated programs with transfers at every distance class, both compression modes; every transfer is decoded and executed by an independent RV32IMAC model and must land on the offset of its label found by walking the output; label table compared. No counterexample among the generated programs of bounded size; not a proof.',
         'trusted: vlib/rvref.py (own ISA model), vlib/refwalk.py; refused programs are out of scope and counted', '4 C03'),
 'C04': ('exploration', 'Hypothesis-generated IR programs, compressed and uncompressed outputs both judged by the reference walk',
         'Each generated program is assembled with and without -c and both outputs are judged against the IR by the independent decoder/executor; a discrepancy present only in the compressed run is a violation.',
         'trusted: vlib/rvref.py RVC legality/expansion tables, vlib/refwalk.py', '4 C04'),
 'C05': ('exploration', 'systematic enumeration of pseudo x registers x li values + Hypothesis programs, executed by reference single-step semantics',
         'All 27 pseudo-instructions over all registers, li over low-13-bits-complete x upper-part classes, plus generated programs; the emitted expansion is executed by rvref.step from many register files and compared with the documented function.',
         'trusted: vlib/rvref.py step semantics; documented effects transcribed from docs/instruction_reference.rst', '4 C05'),
 'C07': ('exploration', 'complete enumeration of relocate_hi/lo (thorough: all of [-2^31,2^32)) + generated %hi/%lo pairs decoded and executed',
         'Quick: low 13 bits complete x structured upper parts; thorough: every 32-bit value in both spellings (exhaustive). Text pairs lui/auipc + addi/lw/sw/jalr are decoded and executed by the reference model.',
         'trusted: vlib/rvref.py', '4 C07'),
 'C08': ('exploration', 'Hypothesis-generated IR programs with label arithmetic + reference walk recomputing values from final offsets',
         'Generated programs with %offset/%position/bare labels/%hi/%lo in instructions, li and data, labels moved by compression, li/call shrinking and aligns; every encoded value is recomputed from the label offsets found by walking the output.',
         'trusted: vlib/rvref.py, vlib/refwalk.py, own expression evaluator vlib/ir.py', '4 C08'),
 'C09': ('exploration', 'Hypothesis-generated IR layouts + exact-consumption walk of the output',
         'Generated item sequences with aligns of all N at all residues; the walk must consume the output exactly with documented sizes and minimal zero padding.',
         'trusted: vlib/refwalk.py; instruction length read from the encoding', '4 C09'),
}
NOT_YET = {}

def main():
    checks = []
    for pid in sorted(CHECKS):
        level, tech, text, note, ref = CHECKS[pid]
        checks.append({
            'property_id': pid,
            'quick_cmd': './check %s --tier quick' % pid,
            'thorough_cmd': './check %s --tier thorough' % pid,
            'evidence_file': 'evidence/%s.json' % pid,
            'replay_cmd_template': './check %s --replay {path}' % pid,
            'engine': 'bbverif',
            'level_claimed': {'category': level, 'text': text, 'design_ref': 'DESIGN.md section ' + ref},
            'level_note': note,
            'technique': tech,
        })
    allp = [json.loads(l)['id'] for l in open(os.path.join(HERE, 'properties.jsonl'))]
    na = [{'property_id': p, 'reason': NOT_YET.get(p, 'check not built yet in this session (planned, see DESIGN.md section 4)')}
          for p in allp if p not in CHECKS]
    m = {
        'version': 1,
        'setup_cmd': './setup.sh',
        'hooks': {'guard': 'BRONZEBEARD_VERIF', 'enable': 'no hooks needed: all observation points are public functions or module attributes patched from the harness',
                  'baseline_off_cmd': 'cd /repo && /venv/bin/python -m pytest -q -p no:cacheprovider',
                  'source_commits': [], 'add_only': True},
        'engines': [{'name': 'bbverif', 'path': 'check', 'serves_properties': sorted(CHECKS),
                     'kind_free_text': 'Python: Hypothesis strategies over a program IR, exhaustive enumerators, independent RV32IMAC reference model, DFU device simulator'}],
        'checks': checks,
        'not_applicable': na,
        'notes': 'exit 2 = harness error (never a violation). VERIF_SEED seeds every generator; VERIF_REPO points the checks at another tree (default /repo).',
    }
    with open(os.path.join(HERE, 'MANIFEST.json'), 'w') as f:
        json.dump(m, f, indent=1)
    print('wrote MANIFEST.json with', len(checks), 'checks,', len(na), 'not applicable')

if __name__ == '__main__':
    main()
