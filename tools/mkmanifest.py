#!/venv/bin/python
"""Regenerates MANIFEST.json from the table below (single source of truth for the registered checks)."""
import json, os
HERE = os.path.dirname(os.path.dirname(os.path.abspath(__file__)))

CHECKS = {
 # id: (level, technique, text, note, design_ref)
 'C03': ('exploration', 'Hypothesis-generated IR programs + reference decoder/executor walk (refwalk)',
         'Generated programs with transfers at every distance class, both compression modes; every transfer is decoded and executed by an independent RV32IMAC model and must land on the offset of its label found by walking the output; the reported label table (labels argument, and the -l file of an in-process command-line run for one program in eight) is compared with the walked offsets. No counterexample among the generated programs of bounded size; not a proof.',
         'trusted: vlib/rvref.py (own ISA model), vlib/refwalk.py; refused programs are out of scope and counted', '4 C03'),
 'C04': ('exploration', 'Hypothesis-generated IR programs, compressed and uncompressed outputs both judged by the reference walk',
         'Each generated program is assembled with and without -c and both outputs are judged against the IR by the independent decoder/executor; a discrepancy present only in the compressed run is a violation.',
         'trusted: vlib/rvref.py RVC legality/expansion tables, vlib/refwalk.py', '4 C04'),
 'C05': ('exploration', 'systematic enumeration of pseudo x registers x li values + Hypothesis programs, executed by reference single-step semantics',
         'All 27 pseudo-instructions over all registers, li over low-13-bits-complete x upper-part classes, call/tail at every distance class +-8 bytes in both directions (acceptance and landing) and to constant absolute addresses over all residues mod 4096, plus generated programs; the emitted expansion is executed by rvref.step from many register files and compared with the documented function.',
         'trusted: vlib/rvref.py step semantics; documented effects transcribed from docs/instruction_reference.rst', '4 C05'),
 'C07': ('exploration', 'complete enumeration of relocate_hi/lo (thorough: all of [-2^31,2^32)) + generated %hi/%lo pairs decoded and executed',
         'Quick: low 13 bits complete x structured upper parts; thorough: every 32-bit value in both spellings (exhaustive). Text pairs lui/auipc + addi/lw/sw/jalr are decoded and executed by the reference model.',
         'trusted: vlib/rvref.py', '4 C07'),
 'C08': ('exploration', 'Hypothesis-generated IR programs with label arithmetic + reference walk recomputing values from final offsets',
         'Generated programs with %offset/%position/bare labels/%hi/%lo in instructions, li and data, labels moved by compression, li/call shrinking and aligns; every encoded value is recomputed from the label offsets found by walking the output.',
         'trusted: vlib/rvref.py, vlib/refwalk.py, own expression evaluator vlib/ir.py', '4 C08'),
 'C09': ('exploration', 'Hypothesis-generated IR layouts + exact-consumption walk of the output',
         'Generated item sequences with aligns of all N at all residues; the walk must consume the output exactly with documented sizes and minimal zero padding.',
         'trusted: vlib/refwalk.py; instruction length read from the encoding', '4 C09'),
 'C01': ('exploration', 'exhaustive enumeration of the encoder operand space + generated source lines, against an independent encoder/decoder',
         'Thorough: the complete operand product of all 66 base mnemonics through the encoder API (about 2.5e8 tuples, exhaustive: true) plus 3e6 generated source lines in random documented spellings; quick: every operand complete on its own with the others sampled. Each word must equal the reference encoding, which is self-tested to round-trip through the reference decoder, so equality means "decodes to the same operation and operands" and gives one-to-one.',
         'trusted: vlib/rvref.py enc32/dec32 (cross-checked once against the 685 pinned vectors of the repository tests)', '4 C01'),
 'C02': ('exploration', 'exhaustive enumeration: all c.* operand tuples in a wide window (forward) and all 65,536 halfwords (reverse) against an RV32C legality/decoding table',
         'Both directions are complete in both tiers: every accepted tuple must decode to the same legal instruction; the canonical text of each of the 28,461 legal non-hint halfwords must assemble back to it (also through register-alias constants, with upper-case mnemonics and imm(reg) syntax, and with immediates written as arithmetic); counts must match. The forward sweep runs again in python -O children.',
         'trusted: vlib/rvref.py dec16/enc16 transcribed from the RVC chapter', '4 C02'),
 'C06': ('exploration', 'boundary enumeration of every operand of every mnemonic against a three-valued accept/refuse/either table, API and text',
         'Every operand of the 93 mnemonics is probed over [lo-2*span, hi+2*span] in all residues plus +-2^k+-1 up to 2^33, all register numbers -2..40 and bad spellings; accepted values must encode exactly as the reference, unrepresentable ones must raise; plus a systematic sweep of every compression-candidate register setting x a dense immediate window through the text front end with -c. All c.* and 13 base mnemonics again in python -O children; text probes also in the imm(reg) syntax and with legal values plus multiples of 2^32. Complete over that window.',
         'trusted: the three-valued table in checks/c06.py (ISA manual + docs); EITHER for CSR >= 0x800, odd jalr offsets, unsigned c.lui spelling', '4 C06'),
 'C10': ('exploration', 'seeded boundary-value generation of data lines, Hypothesis strings and include_bytes file trees against own byte images',
         'Data directives of every width with values at, just outside and far outside both range ends in three number bases; strings with non-ASCII text and all documented escapes; include_bytes files found adjacent / via -i / in sub-directories / behind symlinkdir/.. from four working directories incl. a decoy, mixed-case names with lower-case twins; strings also from UTF-8 files, with CR LF / CR-only line ends, quoted characters and text that is not stable under Unicode normalisation.',
         'trusted: int.to_bytes images, own escape processor (vlib/ir.py unescape)', '4 C10'),
 'C11': ('exploration', 'Hypothesis expression trees + metamorphic substitution (constants vs literal values), all printable character literals',
         'Constants dict compared with an own evaluator; every program is also rendered with values/registers written literally and must give identical bytes and labels in both compression modes.',
         'trusted: own expression evaluator in vlib/ir.py (Python integer semantics)', '4 C11'),
 'C12': ('exploration', 'Hypothesis-generated IR programs, differential: outcome without -c vs with -c',
         'Programs biased to RVC operand-set edges with constants / aliases / label-dependent immediates; any program accepted without -c must be accepted with -c. One genuine defect is recorded as a known finding (a label-dependent operand that is representable only in the uncompressed layout; narrow signature only_with_c:layout_dependent_operand, see DESIGN.md section 5); every other -c-only refusal is a violation. Plus systematic probes: call / tail / j / jal / beqz / bne to constant addresses round the range edges behind 13 kinds of shrinking code.',
         'generator soundness rules of DESIGN.md 2.2', '4 C12'),
 'C13': ('exploration', 'Hypothesis-generated IR programs rendered in a canonical and in 4 drawn spelling styles (metamorphic)',
         'The listed rewrites are applied independently per line and operand; bytes, label table and outcome class must equal the canonical rendering.',
         'renderer applies only rewrites the docs list and never where the docs exclude them', '4 C13'),
 'C14': ('exploration', 'Hypothesis-generated include trees on disk vs own splicer, across working directories (API and CLI)',
         'A generated program is cut into nested include files placed in same/sub/parent/sibling/-i directories; result must equal the spliced flat text regardless of cwd (incl. a cwd full of decoys). Names with ./ prefixes and mixed case, files without final newline, comments glued to the include name, ancestor-directory decoys, include_bytes entries, the same file included twice.',
         'own splicer; precedence between adjacent and -i files is undocumented, either accepted', '4 C14'),
 'C15': ('exploration', 'Hypothesis: valid generated program + one planted fault (140 texts, 12 classes, operand mutations) at a drawn position/include depth, API and CLI; plus coverage-guided byte-level fuzzing of assemble() with atheris/libFuzzer',
         'Whenever the faulty program is refused the error must be AssemblerError carrying the real path and 1-based line of the planted line; CLI exit 1 with File/line and no traceback. Fuzzed source texts must be assembled or refused with AssemblerError naming a line inside the text; any other exception is re-run in the repository interpreter, minimised and reported.',
         'a fault the assembler does not refuse leaves the premise false and is counted; the fuzz part runs under python3-vt (atheris) and is skipped, with a note in the evidence, when that interpreter is missing; resource-limit errors from absurd alignments are excluded and counted', '4 C15'),
 'C16': ('exploration', 'Hypothesis RuleBasedStateMachine over call histories vs one fresh interpreter per (program, options) under varying PYTHONHASHSEED',
         'Histories of assemble() calls on a pool of programs (failing ones included, shared name space, caller dictionaries reused and scribbled) must agree call by call with fresh-process references; module tables and earlier results must stay untouched. Programs live in files in two source directories with shared and same-named includes; further rules reuse dictionaries filled by earlier calls, hand over a labels dictionary left over from another program, rewrite source and included files between calls (an included file may disappear and come back), share one include_dirs list, assemble source TEXT from several working directories, and build sibling programs (label names permuted) with the dictionary the other one filled; objects returned earlier keep their bytes.',
         'fresh interpreter per (program, options) is the reference', '4 C16'),
 'C17': ('exploration', 'Hypothesis option/program combinations run as subprocesses of the real entry point in scratch directories with pre-existing outputs',
         'Success: -o == assemble(), -l parses to the label table, .hex (own Intel HEX reader) == bytes at offset; failure from every pass: exit != 0 and the whole scratch tree byte-identical. Program in the cwd / a subdirectory / elsewhere / behind a symbolic link, -i absolute or relative with odd directory names, -o names ending in .hex, rebuild over an identical -o file, -v.',
         'own Intel HEX reader vlib/ihex.py; unwritable paths not generated', '4 C17'),
 'C18': ('exploration', 'Hypothesis lengths/contents/busy schedules against a simulated DfuSe device with a harness-owned virtual clock',
         'dfu.cli_main() runs in-process against vlib/dfusim.py; final flash, erase-before-write, address range, poll delays honoured and protocol order are checked for every generated run (thorough: also every length 0..16384); firmware through symbolic links, with DFU file suffixes, serial numbers with every tail, 12 fixed runs in a python -O child.',
         'trusted: vlib/dfusim.py device model (DFU 1.1 + DfuSe)', '4 C18'),
 'C19': ('fault_enumeration', 'complete enumeration of single error injections (step x status x device behaviour) + drawn doubles + all oversize lengths against the simulated device',
         'Every single injection point of runs of 1, 2, 3 and 16 pages x status 1..15 x {spec-conformant, lenient} device, and every oversize length size+1..size+2048: never done!, never exit 0, failure named; oversize never reaches the device. Also with the device found in dfuERROR at the start, oversize files behind symbolic links, no device / unknown density letter / other device id.',
         'trusted: vlib/dfusim.py; an escaping USB error counts as non-zero exit', '4 C19'),
 'C20': ('exploration', 'exhaustive eligibility enumeration (expansion of every legal RVC halfword) + Hypothesis programs for monotonicity',
         'All 28,461 expansions written as literal text in four spellings (incl. upper-case mnemonics) must come out in 16 bits with -c (exhaustive), likewise a grid of li values and every instruction of a literal pseudo-instruction expansion; generated programs never grow, no label moves up under -c, and every literal-operand instruction inside a generated program whose meaning is in the eligibility set is 16 bits (eligibility in context).',
         'trusted: vlib/rvref.py expand16', '4 C20'),
}

NOT_YET = {}

def main():
    checks = []
    for pid in sorted(CHECKS):
        level, tech, text, note, ref = CHECKS[pid]
        checks.append({
            'property_id': pid,
            'quick_cmd': './check %s --tier quick' % pid,
            'thorough_cmd': './check %s --tier thorough' % pid,
            'evidence_file': 'evidence/%s.json' % pid,
            'replay_cmd_template': './check %s --replay {path}' % pid,
            'engine': 'bbverif',
            'level_claimed': {'category': level, 'text': text, 'design_ref': 'DESIGN.md section ' + ref},
            'level_note': note,
            'technique': tech,
        })
    allp = [json.loads(l)['id'] for l in open(os.path.join(HERE, 'properties.jsonl'))]
    na = [{'property_id': p, 'reason': NOT_YET.get(p, 'check not built yet in this session (planned, see DESIGN.md section 4)')}
          for p in allp if p not in CHECKS]
    m = {
        'version': 1,
        'setup_cmd': './setup.sh',
        'hooks': {'guard': 'BRONZEBEARD_VERIF', 'enable': 'no hooks needed: all observation points are public functions or module attributes patched from the harness',
                  'baseline_off_cmd': 'cd /repo && /venv/bin/python -m pytest -q -p no:cacheprovider',
                  'source_commits': [], 'add_only': True},
        'engines': [{'name': 'bbverif', 'path': 'check', 'serves_properties': sorted(CHECKS),
                     'kind_free_text': 'Python: Hypothesis strategies over a program IR, exhaustive enumerators, independent RV32IMAC reference model, DFU device simulator, atheris/libFuzzer byte-level fuzz target (tools/fuzz_text.py, C15)'}],
        'checks': checks,
        'not_applicable': na,
        'notes': 'exit 2 = harness error (never a violation). VERIF_SEED seeds every generator; VERIF_REPO points the checks at another tree (default /repo).',
    }
    with open(os.path.join(HERE, 'MANIFEST.json'), 'w') as f:
        json.dump(m, f, indent=1)
    print('wrote MANIFEST.json with', len(checks), 'checks,', len(na), 'not applicable')

if __name__ == '__main__':
    main()
