#!/venv/bin/python
"""Confirm an independently written seeded change and run checks against it.

usage: tools/try_seed.py <name> <patch.diff> <demo.py> <breaks-property> [--tier quick] [--checks C03,C08] [--save]

1. scratch worktree of /repo HEAD under /var/tmp (removed afterwards), demo copied into it
2. unpatched: demo must exit 0;  patched: repository tests must pass and demo must exit non-zero
3. the listed checks (default: the property the change breaks) run with VERIF_REPO=<scratch>
4. --save: store patch, demo and meta.json under /verif/seeded/<name>/
"""
import argparse
import json
import os
import shutil
import subprocess
import sys
import tempfile
import time

VERIF = os.path.dirname(os.path.dirname(os.path.abspath(__file__)))
TMP = os.environ.get('VERIF_TMP', '/var/tmp')


def sh(cmd, **kw):
    return subprocess.run(cmd, stdout=subprocess.PIPE, stderr=subprocess.STDOUT, text=True, **kw)


def main():
    ap = argparse.ArgumentParser()
    ap.add_argument('name')
    ap.add_argument('patch')
    ap.add_argument('demo')
    ap.add_argument('prop')
    ap.add_argument('--tier', default='quick')
    ap.add_argument('--checks')
    ap.add_argument('--needs', default='')
    ap.add_argument('--what', default='')
    ap.add_argument('--save', action='store_true')
    a = ap.parse_args()
    d = tempfile.mkdtemp(prefix='bb-seed-', dir=TMP)
    out = tempfile.mkdtemp(prefix='bb-seedout-', dir=TMP)
    os.rmdir(d)
    meta = {'name': a.name, 'breaks_property': a.prop, 'needs_to_manifest': a.needs, 'what_changed': a.what, 'ran': []}
    try:
        r = sh(['git', '-C', '/repo', 'worktree', 'add', '--detach', '-q', d, 'HEAD'])
        assert r.returncode == 0, r.stdout
        demo = os.path.join(d, 'demo_seed.py')
        shutil.copy(a.demo, demo)
        common = os.path.join(os.path.dirname(os.path.abspath(a.demo)), 'demo_common.py')   # helper module some demos share
        if os.path.exists(common):
            shutil.copy(common, os.path.join(d, 'demo_common.py'))
        env = dict(os.environ, PYTHONPATH=d, PYTHONDONTWRITEBYTECODE='1')
        r0 = sh(['/venv/bin/python', demo], cwd=d, env=env)
        meta['demo_unpatched_exit'] = r0.returncode
        meta['ran'].append('demo on unpatched scratch worktree: exit %d' % r0.returncode)
        ap_ = sh(['git', '-C', d, 'apply', os.path.abspath(a.patch)])
        if ap_.returncode:
            print('PATCH DOES NOT APPLY:', ap_.stdout)
            meta['error'] = 'patch does not apply'
            print(json.dumps(meta, indent=1))
            return 2
        t = sh(['/venv/bin/python', '-m', 'pytest', '-q', '-p', 'no:cacheprovider'], cwd=d, env=env)
        meta['tests_pass_with_change'] = t.returncode == 0
        meta['ran'].append('repository tests with the change: %s' % t.stdout.strip().splitlines()[-1])
        r1 = sh(['/venv/bin/python', demo], cwd=d, env=env)
        meta['demo_patched_exit'] = r1.returncode
        meta['demo_patched_output'] = r1.stdout[-600:]
        meta['ran'].append('demo with the change: exit %d' % r1.returncode)
        meta['confirmed'] = bool(meta['tests_pass_with_change'] and r0.returncode == 0 and r1.returncode != 0)
        meta['checks'] = {}
        for prop in (a.checks.split(',') if a.checks else [a.prop]):
            t0 = time.time()
            cenv = dict(os.environ, VERIF_REPO=d, VERIF_OUT=out)
            c = sh([os.path.join(VERIF, 'check'), prop, '--tier', a.tier], env=cenv, cwd=VERIF)
            sigs = [ln.strip() for ln in c.stdout.splitlines() if ln.strip().startswith('signature:')]
            meta['checks']['%s:%s' % (prop, a.tier)] = {'rc': c.returncode, 'signatures': sigs[:5], 'secs': round(time.time() - t0, 1),
                                                      'tail': c.stdout[-300:] if c.returncode not in (0, 1) else ''}
            meta['ran'].append('./check %s --tier %s with VERIF_REPO=<scratch with the change>: exit %d' % (prop, a.tier, c.returncode))
        meta['detected_by'] = sorted(k for k, v in meta['checks'].items() if v['rc'] == 1)
    finally:
        sh(['git', '-C', '/repo', 'worktree', 'remove', '--force', d])
        shutil.rmtree(d, ignore_errors=True)
        shutil.rmtree(out, ignore_errors=True)
        sh(['git', '-C', '/repo', 'worktree', 'prune'])
    print(json.dumps(meta, indent=1))
    if a.save:
        dest = os.path.join(VERIF, 'seeded', a.name)
        os.makedirs(dest, exist_ok=True)
        for src, name in ((a.patch, 'patch.diff'), (a.demo, 'demo.py')):
            if os.path.abspath(src) != os.path.join(dest, name):
                shutil.copy(src, os.path.join(dest, name))
        common = os.path.join(os.path.dirname(os.path.abspath(a.demo)), 'demo_common.py')
        if os.path.exists(common) and os.path.abspath(common) != os.path.join(dest, 'demo_common.py'):
            shutil.copy(common, os.path.join(dest, 'demo_common.py'))
        old = {}
        mp = os.path.join(dest, 'meta.json')
        if os.path.exists(mp):
            old = json.load(open(mp))
            old_checks = old.get('checks', {})
            old_checks.update(meta['checks'])
            meta['checks'] = old_checks
            meta['detected_by'] = sorted(k for k, v in meta['checks'].items() if v['rc'] == 1)
            for k in ('needs_to_manifest', 'what_changed'):
                if not meta[k]:
                    meta[k] = old.get(k, '')
        json.dump(meta, open(mp, 'w'), indent=1)
    return 0


if __name__ == '__main__':
    sys.exit(main())
