#!/venv/bin/python
"""Development-time check of the ORACLE (not of bronzebeard): replay the pinned vectors of
tests/test_isa_*.py, as plain data parsed with `ast`, against vlib.rvref.  Never part of a
registered check; a disagreement would mean rvref misreads the ISA manual."""
import ast, glob, os, sys
sys.path.insert(0, os.path.dirname(os.path.dirname(os.path.abspath(__file__))))
from vlib import rvref, apimap

repo = os.environ.get('VERIF_REPO', '/repo')
n = bad = 0
for path in sorted(glob.glob(os.path.join(repo, 'tests', 'test_isa_*.py'))):
    tree = ast.parse(open(path).read())
    for fn in tree.body:
        if not isinstance(fn, ast.FunctionDef) or not fn.name.startswith('test_'):
            continue
        name = fn.name[5:]
        mn = name.replace('c_', 'c.', 1) if name.startswith('c_') else name
        mn = {'lr_w': 'lr.w', 'sc_w': 'sc.w', 'fence_i': 'fence.i'}.get(mn, mn)
        if mn.startswith('amo'):
            mn = mn.replace('_w', '.w')
        if mn not in rvref.BASE and mn not in rvref.C_OPERANDS:
            continue
        for dec in fn.decorator_list:
            if not (isinstance(dec, ast.Call) and getattr(dec.func, 'attr', '') == 'parametrize'):
                continue
            names = [x.strip() for x in ast.literal_eval(dec.args[0]).split(',')]
            rows = eval(compile(ast.Expression(dec.args[1]), path, 'eval'), {'__builtins__': {}})
            for row in rows:
                row = row if isinstance(row, tuple) else (row,)
                d = dict(zip(names, row))
                code = d.pop('code')
                if mn.startswith('c.'):
                    f = {}
                    for want in rvref.C_OPERANDS[mn]:
                        for k in (want, 'rd', 'rs1', 'rd_rs1', 'rs2'):
                            if k in d and want not in f and (k == want or (want.startswith('r') and k.startswith('r') and len(d) - ('imm' in d) == 1)):
                                f[want] = d[k]
                    if set(f) != set(rvref.C_OPERANDS[mn]):
                        print('skip', mn, d); continue
                    try:
                        got = rvref.enc16(mn, f)
                    except ValueError as e:
                        got = 'refused: %s' % e
                else:
                    fmt = rvref.fmt_of(mn)
                    f = dict(d)
                    if fmt == 'SHIFT': f['shamt'] = f.pop('rs2')
                    if fmt == 'CSR': f['csr'] = f.pop('imm')
                    t = apimap.canonical(mn, f)
                    try:
                        got = rvref.enc32(*t)
                    except ValueError as e:
                        got = 'refused: %s' % e
                n += 1
                if got != code:
                    bad += 1
                    print('DISAGREE', mn, d, 'pinned', bin(code), 'rvref', bin(got) if isinstance(got, int) else got)
print('vectors', n, 'disagreements', bad)
sys.exit(1 if bad else 0)
