"""Reference for C16: assemble ONE program in a fresh interpreter (PYTHONPATH points at the tree under test).
stdin: JSON {source, compress, labels, constants}; stdout: JSON outcome."""
import json
import sys

import os

req = json.load(sys.stdin)
from bronzebeard import asm

# (the working directory of the call is the directory this interpreter was STARTED in: see fresh() in checks/c16.py)

labels = req['labels']
consts = req['constants']
kw = {'compress': req['compress']}
if req.get('include_dirs') is not None:
    kw['include_dirs'] = req['include_dirs']
if labels is not None:
    kw['labels'] = labels
if consts is not None:
    kw['constants'] = consts
try:
    out = asm.assemble(req['source'], **kw)
    res = {'ok': True, 'bytes': bytes(out).hex(), 'labels': labels, 'constants': consts}
except asm.AssemblerError as e:
    res = {'ok': False, 'type': 'AssemblerError', 'message': e.message, 'line': getattr(e.line, 'number', None)}
except Exception as e:
    res = {'ok': False, 'type': type(e).__name__, 'message': str(e), 'line': None}
json.dump(res, sys.stdout)
