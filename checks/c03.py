"""C03 - branches, jumps, call and tail land on their label; the label table is exact."""
from vlib import env, progcheck, strategies as S
from checks import _prog

PROP = 'C03'
OWNED = {'transfer_target', 'label_table'}
PROFILE = S.profile(w_branch=8, w_jal=5, w_calltail=5, w_group=5, w_li=4, w_data=2, w_align=2, w_labelval=0,
                    w_sys=0, n_labels=(2, 7), n_items=(4, 36), li_label=False)
N = {'quick': 2400, 'thorough': 240000}


def nontrivial(prog, w, comp, walks):
    has_transfer = 'transfer' in prog.tags or 'group' in prog.tags
    return has_transfer and (_prog.moved_labels(prog, w) > 0 or 'dist>=2K' in prog.tags)


def judge(prog, res):
    _prog.judge_walk(prog, res, PROP, OWNED, (False, True), nontrivial)


def run(tier):
    chk = env.Check(PROP, tier)
    chk.rule = ('Hypothesis IR programs (profile transfers: six branches, jal/j, call, tail, pseudo-branches, explicit '
                'c.j/c.jal/c.beqz/c.bnez, crafted transfer+gap+label groups at the distance classes), assembled with '
                'and without compression, judged by refwalk (decode + execute, pc+imm == label offset; reported label '
                'table == walked offsets). non-trivial = assembled program with a transfer in which some label ends at '
                'an offset different from its pessimistic one, or a crafted distance >= 2 KiB; distinct by (source, mode)')
    progcheck.run_sharded(chk, PROP, PROFILE, N[tier], 'judge', __name__)
    _prog.check_vacuity(chk)
    chk.assumptions = ['rvref decoder/executor', 'refused programs are outside the property (counted)']
    return chk.finish()


def replay(path):
    return progcheck.replay_program(path, judge)
