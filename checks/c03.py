"""C03 - branches, jumps, call and tail land on their label; the label table is exact."""
from vlib import env, progcheck, strategies as S
from checks import _prog

PROP = 'C03'
OWNED = {'transfer_target', 'label_table'}
PROFILE = S.profile(w_branch=8, w_jal=5, w_calltail=5, w_group=5, w_li=4, w_data=2, w_align=2, w_labelval=0,
                    w_sys=0, n_labels=(2, 7), n_items=(4, 36), li_label=False)
N = {'quick': 2400, 'thorough': 240000}


def nontrivial(prog, w, comp, walks):
    has_transfer = 'transfer' in prog.tags or 'group' in prog.tags
    return has_transfer and (_prog.moved_labels(prog, w) > 0 or 'dist>=2K' in prog.tags)


def parse_label_file(text):
    import re
    out = {}
    for ln in text.splitlines():
        m = re.fullmatch(r'\s*(\S+?)[\s:=,]+(-?(?:0[xX][0-9a-fA-F]+|\d+))\s*', ln)
        if not m or m.group(1) in out:
            return None
        out[m.group(1)] = int(m.group(2), 0) if not m.group(2).lstrip('-').isdigit() else int(m.group(2))
    return out


def judge(prog, res):
    walks = _prog.judge_walk(prog, res, PROP, OWNED, (False, True), nontrivial)
    # the -l file of the command line is the same label table: one program in eight also goes through cli_main (in-process)
    src = prog.text()
    if env.chash(src)[1] % 8 == 0:
        import os
        import sys
        from vlib import ir, progcheck
        a = _prog.get_asm()
        for comp in (False, True):
            if walks.get(comp) is None or walks[comp][0].discs:
                continue
            w = walks[comp][0]
            with env.scratch_dir('bbv-c03-') as d:
                with open(os.path.join(d, 'p.asm'), 'w', encoding='utf-8') as f:
                    f.write(src)
                old = sys.argv
                sys.argv = ['bronzebeard'] + (['-c'] if comp else []) + ['-o', os.path.join(d, 'p.bin'), '-l', os.path.join(d, 'p.labels'), os.path.join(d, 'p.asm')]
                try:
                    with env.quiet_stdio():
                        try:
                            a.cli_main()
                            code = 0
                        except SystemExit as ex:
                            code = ex.code if isinstance(ex.code, int) else (0 if ex.code is None else 1)
                        except Exception as ex:
                            code = 'raised %s' % type(ex).__name__
                finally:
                    sys.argv = old
                text = open(os.path.join(d, 'p.labels')).read() if os.path.exists(os.path.join(d, 'p.labels')) else None
            res.count('cli_label_files')
            table = parse_label_file(text) if text is not None else None
            if code != 0 or table != w.labels:
                raise env.CaseFailure('label_table:cli:%s' % ('c' if comp else 'u'), 'the -l file (exit %r) lists %r, the first byte after each label is at %r\n%s' % (
                    code, table if table is not None else text, w.labels, src[:600]), progcheck.case_of(prog, comp))


def run(tier):
    chk = env.Check(PROP, tier)
    chk.rule = ('Hypothesis IR programs (profile transfers: six branches, jal/j, call, tail, pseudo-branches, explicit '
                'c.j/c.jal/c.beqz/c.bnez, crafted transfer+gap+label groups at the distance classes), assembled with '
                'and without compression, judged by refwalk (decode + execute, pc+imm == label offset; reported label '
                'table == walked offsets). non-trivial = assembled program with a transfer in which some label ends at '
                'an offset different from its pessimistic one, or a crafted distance >= 2 KiB; distinct by (source, mode)')
    progcheck.run_sharded(chk, PROP, PROFILE, N[tier], 'judge', __name__)
    _prog.check_vacuity(chk)
    chk.assumptions = ['rvref decoder/executor', 'refused programs are outside the property (counted)']
    return chk.finish()


def replay(path):
    return progcheck.replay_program(path, judge)
