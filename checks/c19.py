"""C19 - DFU refuses oversize firmware untouched and never reports a failed flash as done."""
import itertools
import json
import random

from vlib import dfusim, env
from checks import _dfu, c18

PROP = 'C19'


def outcome_ok_for_failure(r):
    """A failed flash must not be announced as success: no done!, non-zero exit, failure named."""
    out = r['out'] + ' ' + str(r['exit'][2])
    if 'done!' in r['out']:
        return 'run prints done! although the device reported an error'
    if r['exit'][1] == 0:
        return 'run exits with status 0 although the device reported an error'
    low = out.lower()
    named = ('error' in low and any(w in low for w in ('eras', 'writ', 'address', 'download', 'pipe', 'status'))) or any(
        d.lower() in low for d in STATUS_TEXT)
    if not named:
        return 'exit is non-zero but the output does not name the failure: %r' % out[-200:]
    return None


STATUS_TEXT = ['File is not targeted', 'vendor-specific verification', 'unable to write memory', 'erase function failed', 'erase check failed',
               'Program memory function failed', 'failed verification', 'address that is out of range', 'wLength = 0', 'firmware is corrupt',
               'vendor-specific error', 'USB reset', 'power on reset', 'Something went wrong', 'stalled an unexpected request']


def inject_job(pages, jobs):
    res = env.Result()
    fw = _dfu.firmware(pages * 7 + 1, pages * 1024 - (pages % 2) * 100, 0)
    with env.scratch_dir('bbv-c19-') as d:
        for job in jobs:
            inj, sched_seed = job[0], job[1]
            start_error = job[2] if len(job) > 2 else None   # the device is found in dfuERROR with this status (left by an earlier run)
            res.evaluations += 1
            sched = c18.make_schedule(sched_seed, 0.3 if sched_seed else 0.0, pages + 1, start_error)
            sched['inject'] = {(k, i): (st_, beh) for (k, i, st_, beh) in inj}
            r = _dfu.run(16 if pages <= 16 else 32, fw, sched, d)
            why = outcome_ok_for_failure(r)
            reached = any(x[0] == 'GETSTATUS' and x[1] != 0 for x in r['device'].requests)
            if not reached:
                res.count('injection_not_reached')
                continue
            res.nontrivial_count += 1
            res.count('inject:%s:%s' % (inj[0][0], inj[0][3]) if len(inj) == 1 else 'inject:double')
            if start_error:
                res.count('inject:device_found_in_dfuERROR')
            if why:
                kinds = '+'.join(sorted({'%s:%s' % (k, beh) for (k, i, st_, beh) in inj}))
                res.fail('inject:%s%s' % (kinds, ':start_error' if start_error else ''), '%s\n  injected %r in a %d page run (device found in dfuERROR with status %r); exit %r\n  output: %r' % (
                    why, inj, pages, start_error, r['exit'], r['out'][-250:]),
                         {'kind': 'inject', 'pages': pages, 'inj': [list(x) for x in inj], 'sched_seed': sched_seed, 'start_error': start_error})
        if jobs:
            res.sample({'pages': pages, 'example_injection': [list(x) for x in jobs[len(jobs) // 2][0]]})
    return res


def oversize_job(pc, extras):
    res = env.Result()
    with env.scratch_dir('bbv-c19-') as d:
        for extra in extras:
            n = pc * 1024 + extra
            res.evaluations += 1
            res.nontrivial_count += 1
            # every sixth length: the file ends in a DFU suffix ("UFD", bLength 16) - a .dfu file is still too large as a whole,
            # the flasher writes the file as it is
            fw = _dfu.firmware(extra, n, 3 if extra % 6 == 3 else 0)
            # every third length: the part that does not fit is pure 0xFF (what erased flash holds) or pure 0x00 padding
            if extra % 3 == 1:
                fw = fw[:pc * 1024] + b'\xff' * extra
            elif extra % 3 == 2:
                fw = fw[:pc * 1024 - 7] + b'\x00' * (extra + 7)
            # (half of them named through a symbolic link; serial numbers with every tail, also one that holds another density letter)
            r = _dfu.run(pc, fw, {'serial_suffix': ['J', 'B', '8', '6', '4', 'JB8', '4B6'][extra % 7]}, d, symlink=(extra % 4 >= 2))
            dev = r['device']
            if dev.dnloads or bytes(dev.flash) != dev.initial:
                res.fail('oversize:touched', 'firmware of %d bytes for a %d byte flash: %d DNLOAD requests reached the device' % (n, pc * 1024, dev.dnloads),
                         {'kind': 'oversize', 'pages': pc, 'extra': extra})
            elif r['exit'][1] == 0 or 'done!' in r['out']:
                res.fail('oversize:exit', 'oversize firmware (%d > %d) ends with %r' % (n, pc * 1024, r['exit']), {'kind': 'oversize', 'pages': pc, 'extra': extra})
        res.sample({'flash_pages': pc, 'oversize_by': [extras[0], extras[-1]]})
    return res


def environment_job():
    """No device / a device whose serial number names no known flash size / another device id: nothing may reach a device and the run
    must not end as a success."""
    res = env.Result()
    fw = _dfu.firmware(5, 3000, 0)
    with env.scratch_dir('bbv-c19-') as d:
        for what, kw, sched in [('device not found', {'present': False}, {}), ('unknown density letter', {}, {'density_letter': 'Z'}),
                                ('unknown density letter', {}, {'density_letter': '2'}), ('another device id', {'device_id': '0483:df11'}, {})]:
            res.evaluations += 1
            res.nontrivial_count += 1
            r = _dfu.run(16, fw, sched, d, **kw)
            dev = r['device']
            if dev.dnloads or bytes(dev.flash) != dev.initial:
                res.fail('environment:touched', '%s: %d DNLOAD requests reached the device' % (what, dev.dnloads), {'kind': 'environment', 'what': what})
            elif r['exit'][1] == 0 or 'done!' in r['out']:
                res.fail('environment:exit', '%s: the run ends with %r' % (what, r['exit']), {'kind': 'environment', 'what': what})
    return res


def _dispatch(fn, *a):
    return fn(*a)


def run(tier):
    chk = env.Check(PROP, tier, level='fault_enumeration')
    _dfu.load_dfu()
    jobs = []
    for pc in (16, 32, 64, 128):
        extras = list(range(1, 2049)) if (tier == 'thorough' or pc == 16) else list(range(1, 2049, 16)) + [1, 2, 3]
        extras += [4096, 65536, pc * 1024, 3 * pc * 1024 + 5]
        for i in range(0, len(extras), 300):
            jobs.append((oversize_job, pc, extras[i:i + 300]))
    jobs.append((environment_job,))
    rnd = random.Random(env.derive(chk.seed, PROP, 'doubles'))
    for pages in (1, 2, 3, 16):
        singles = [([(kind, k, status, beh)], 0 if (status + k) % 3 else 17 + k) for kind in ('erase', 'addr', 'write') for k in range(pages)
                   for status in range(1, 16) for beh in ('spec', 'lenient')]
        # the same single injections against a device that is found in dfuERROR (left there by an earlier failed run) - with the very
        # status the injected fault reports later, or with another one
        singles += [([(kind, k, status, beh)], 0 if (status + k) % 2 else 23 + k, status if (k + status) % 4 else 1 + (status + 6) % 15)
                    for kind in ('erase', 'addr', 'write') for k in range(min(pages, 4)) for status in range(1, 16) for beh in ('spec', 'lenient')]
        for i in range(0, len(singles), 120):
            jobs.append((inject_job, pages, singles[i:i + 120]))
        nd = {'quick': 500, 'thorough': 50000}[tier] // 4
        doubles = []
        for _ in range(nd):
            a = (rnd.choice(['erase', 'addr', 'write']), rnd.randrange(pages), rnd.randrange(1, 16), rnd.choice(['spec', 'lenient']))
            b = (rnd.choice(['erase', 'addr', 'write']), rnd.randrange(pages), rnd.randrange(1, 16), rnd.choice(['spec', 'lenient']))
            if (a[0], a[1]) != (b[0], b[1]):
                doubles.append(([a, b], rnd.randrange(1 << 30)))
        for i in range(0, len(doubles), 150):
            jobs.append((inject_job, pages, doubles[i:i + 150]))
    chk.merge(env.run_shards(_dispatch, jobs))
    chk.exhaustive = True
    chk.rule = ('(a) oversize: every length size+1..size+2048 (16 KiB variant; every 16th on the others in quick, all in thorough) and larger ones '
                '(random content, a trailing DFU suffix, or the excess being pure 0xFF / 0x00 fill; the path given directly or through a symbolic link) on the 4 flash sizes: no DNLOAD may reach the simulated device, flash unchanged, exit != 0; (b) fault enumeration: runs of 1, 2, '
                '3 and 16 pages x every single injection point (erase k, set-address k, write k) x status 1..15 x device behaviour {spec: enters '
                'dfuERROR and stalls, lenient: reports the status once and carries on} - complete, and again with the device found in dfuERROR at the start (same status as the later fault, or another); plus seed-drawn double injections with busy '
                'schedules. oracle: done! not printed, exit status != 0, output names the failure. non-trivial = every injection that the run '
                'reached / every oversize length; distinct by construction; plus: no device, unknown density letter in the serial number, another device id')
    chk.assumptions = ['vlib/dfusim.py device model', 'an escaping USB error (stalled transfer) counts as a non-zero exit naming the failure']
    return chk.finish()


def replay(path):
    with open(path) as f:
        body = json.load(f)
    c = body['case']
    if c['kind'] == 'environment':
        r = environment_job()
    elif c['kind'] == 'oversize':
        r = oversize_job(c['pages'], [c['extra']])
    else:
        r = inject_job(c['pages'], [([tuple(x) for x in c['inj']], c['sched_seed'], c.get('start_error'))])
    if r.failures:
        print('VIOLATION property=%s replay=%s' % (PROP, path))
        print('  ' + r.failures[0]['what'][:800])
        return env.EXIT_VIOLATION
    print('replay holds: %s' % path)
    return env.EXIT_OK
