"""C11 - constants evaluate as integer arithmetic and substitute transparently."""
import json
import struct

from hypothesis import strategies as st

from vlib import env, ir, progcheck, strategies as S
from checks import _prog

PROP = 'C11'
PROFILE = S.profile(chr_extra='\'\'\'##,,()" ', n_consts=(2, 8), p_const_operand=0.6, p_alias=0.5, w_shift=6, w_li=6, w_data=5, w_labelval=4, w_cinsn=4,
                    w_upper=3, w_group=1, far=False, n_items=(2, 30))
N = {'quick': 3200, 'thorough': 240000}
PRINTABLE = [chr(c) for c in range(0x20, 0x7f)]
# character literals beyond ASCII stand for their code point (Latin-1, two- and three-byte UTF-8, astral)
NONASCII = ['\u00e9', '\u00ff', '\u0100', '\u03a9', '\u20ac', '\U0001f600']


def subst_value(v, consts):
    if isinstance(v, ir.CRef):
        return ir.Lit(consts[v.name])
    if isinstance(v, ir.Bin):
        return ir.Bin(v.op, subst_value(v.a, consts), subst_value(v.b, consts))
    if isinstance(v, ir.Un):
        return ir.Un(v.op, subst_value(v.a, consts))
    if isinstance(v, ir.Paren):
        return ir.Paren(subst_value(v.a, consts))
    if isinstance(v, ir.Hi):
        return ir.Hi(subst_value(v.v, consts))
    if isinstance(v, ir.Lo):
        return ir.Lo(subst_value(v.v, consts))
    if isinstance(v, ir.Pos):
        return ir.Pos(v.name, subst_value(v.base, consts))
    if isinstance(v, ir.PosC):
        return ir.Lit(consts[v.name] + v.base.eval(ir.Ctx(consts, {}, 0)))   # %position(K, n) written as its value
    return v


def subst_op(x, consts):
    if isinstance(x, ir.Reg):
        return ir.Reg(x.n)
    if isinstance(x, ir.V):
        return subst_value(x, consts)
    return x


def substitute(items):
    consts = ir.eval_consts(items)
    out = []
    # %offset(K) / a bare constant as jump target has no literal spelling (the modifier takes a NAME): those constants stay, with
    # their value written as a plain integer
    keep = set()

    def offc_names(v):
        if isinstance(v, ir.OffC):
            keep.add(v.name)
        for attr in ('a', 'b', 'v', 'base'):
            x = getattr(v, attr, None)
            if isinstance(x, ir.V):
                offc_names(x)
    for it in items:
        for v in (list(it.ops.values()) if it.kind == 'insn' else list(it.ops) if it.kind == 'pseudo' else [it.value] if it.kind in ('short', 'pack') else []):
            if isinstance(v, ir.V):
                offc_names(v)
            elif isinstance(v, str) and v in consts:
                keep.add(v)     # a constant as the target of a pseudo-instruction
    for it in items:
        if it.kind == 'const':
            if it.name in keep:
                out.append(ir.ConstDef(it.name, value=ir.Lit(consts[it.name])))
            continue
        if it.kind == 'insn':
            out.append(ir.Insn(it.mn, {k: subst_op(v, consts) for k, v in it.ops.items()}, it.baseoff))
        elif it.kind == 'pseudo':
            out.append(ir.Pseudo(it.name, [subst_op(v, consts) for v in it.ops]))
        elif it.kind == 'short':
            out.append(ir.Short(it.name, subst_value(it.value, consts)))
        elif it.kind == 'pack':
            out.append(ir.Pack(it.fmt, subst_value(it.value, consts)))
        else:
            out.append(it)
    return out, consts


def usage_sites(items):
    sites = set()
    for it in items:
        if it.kind == 'insn':
            for k, v in it.ops.items():
                if isinstance(v, ir.Reg) and v.alias:
                    sites.add('alias:' + ('c' if it.mn.startswith('c.') else '') + k)
                elif isinstance(v, ir.V) and v.const_dep:
                    sites.add('imm:' + k + (':hi/lo/pos' if isinstance(v, (ir.Hi, ir.Lo, ir.Pos)) else ''))
        elif it.kind == 'pseudo':
            for v in it.ops:
                if isinstance(v, ir.Reg) and v.alias:
                    sites.add('alias:pseudo')
                elif isinstance(v, ir.V) and v.const_dep:
                    sites.add('pseudo_value')
        elif it.kind in ('short', 'pack') and it.value.const_dep:
            sites.add('data')
    return sites


def redefinition_job(seed, n):
    """A constant may be defined again in terms of its own earlier value (the running-offset idiom `OFF = OFF + 4`): every definition
    is evaluated in order, a field constant captures the value of the moment, the dictionary ends with the last value."""
    import random
    a = env.load_asm()
    res = env.Result()
    rnd = random.Random(seed)
    for _ in range(n):
        lines, exp = ['OFF_RUN = %d' % 0], {}
        cur = 0
        for k in range(rnd.randrange(2, 7)):
            lines.append('FIELD_%d = OFF_RUN' % k)
            exp['FIELD_%d' % k] = cur
            step = rnd.choice([1, 2, 4, 4, 8, 16, 3])
            form = rnd.randrange(3)
            lines.append(['OFF_RUN = OFF_RUN + %d' % step, 'OFF_RUN = %d + OFF_RUN' % step, 'OFF_RUN = (OFF_RUN + %d)' % step][form])
            cur += step
        exp['OFF_RUN'] = cur
        lines.append('SIZE_ALL = OFF_RUN')
        exp['SIZE_ALL'] = cur
        lines.append('dw SIZE_ALL')
        src = '\n'.join(lines) + '\n'
        res.evaluations += 1
        r = progcheck.assemble(a, src, False)
        if r[0] != 'ok':
            res.fail('redefinition:refused', 'a program that re-defines a constant from its own earlier value is refused: %s\n%s' % (str(r[1])[-160:], src), {'kind': 'text', 'source': src, 'expect': exp})
        elif {k: r[3].get(k) for k in exp} != exp or r[1] != cur.to_bytes(4, 'little'):
            res.fail('redefinition:value', 'constants after %r are %r, sequential evaluation gives %r' % (src, {k: r[3].get(k) for k in exp}, exp), {'kind': 'text', 'source': src, 'expect': exp})
        else:
            res.nontrivial_count += 1
    return res


def judge(prog, res):
    a = _prog.get_asm()
    res.evaluations += 1
    # half of the programs use the spelling alternatives that are not C13 rewrite kinds (blanks round operators on both sides / one
    # side / none, %hi(x) vs %hi x, ...): a pure function of the program
    h = env.chash(prog.text())
    style = (lambda: ir.Style(1 + h[1] + 256 * h[2], kinds=set())) if h[0] % 2 else (lambda: None)
    src = prog.text(style())
    flat, consts = substitute(prog.items)
    flat_src = S.Program(flat).text(style())
    sites = usage_sites(prog.items)
    for s_ in sites:
        res.count('site:' + s_)
    maxdepth = max([ir.depth(it.value) for it in prog.items if it.kind == 'const' and it.value is not None] or [0])
    for comp in (False, True):
        r1 = progcheck.assemble(a, src, comp)
        r2 = progcheck.assemble(a, flat_src, comp)
        if r1[0] == 'ok':
            # the constants dict must equal the integer value of every defining expression
            for name, v in consts.items():
                if r1[3].get(name) != v:
                    raise env.CaseFailure('const_value', 'constant %s evaluates to %r, integer arithmetic gives %r\n%s' % (
                        name, r1[3].get(name), v, [it.render(ir.Style(0)) for it in prog.items if it.kind == 'const']),
                        progcheck.case_of(prog, comp))
        if r1[0] != 'ok' and r2[0] == 'ok':
            e = r1[1]
            raise env.CaseFailure('subst:refused:%s' % progcheck.exc_sig(e), 'program with constants is refused (%s: %s) but the same program with the '
                                  'values written literally assembles\n--- with constants\n%s--- substituted\n%s' % (type(e).__name__, str(e)[-200:], src[:800], flat_src[:800]),
                                  progcheck.case_of(prog, comp))
        if r1[0] == 'ok' and r2[0] != 'ok':
            e = r2[1]
            res.count('literal_refused_constant_accepted')
            raise env.CaseFailure('subst:literal_refused:%s' % progcheck.exc_sig(e), 'program with constants assembles but the same program with the values '
                                  'written literally is refused (%s)\n--- with constants\n%s--- substituted\n%s' % (str(e)[-200:], src[:800], flat_src[:800]),
                                  progcheck.case_of(prog, comp))
        if r1[0] != 'ok':
            res.count('both_refused')
            continue
        if r1[1] != r2[1] or r1[2] != r2[2]:
            n = next(i for i in range(min(len(r1[1]), len(r2[1])) + 1) if r1[1][i:i + 1] != r2[1][i:i + 1]) if r1[1] != r2[1] else -1
            raise env.CaseFailure('subst:bytes', 'binary with constants differs from the binary with the values written literally (first '
                                  'difference at offset %d: %s vs %s)\n--- with constants\n%s--- substituted\n%s' % (
                                      n, r1[1][n:n + 8].hex(), r2[1][n:n + 8].hex(), src[:800], flat_src[:800]), progcheck.case_of(prog, comp))
        res.count('equal')
        if maxdepth >= 2 or any(not s_.startswith('imm:imm') or ':' in s_[4:] for s_ in sites):
            res.nt(env.chash((src, comp)))
    if res.evaluations % 97 == 1:
        res.sample({'source': src[:600]})


def chars_job(tier):
    """Every printable ASCII character as the value of a constant, raw and (for ' and \\) escaped."""
    a = env.load_asm()
    res = env.Result()
    for ch in PRINTABLE + NONASCII:
        spellings = [("'%s'" % ch, False)]
        if ch in "'\\":
            spellings.append(("'\\%s'" % ch, True))
        worked = 0
        contexts = ['K = %s', '  K = %s  # c', 'K = %s\ndw K', 'dw %s + 1']
        if ord(ch) < 2048:
            contexts.append('K = %s\naddi x1, x0, K')
        if ord(ch) < 256:
            contexts += ['K = %s\ndb K', 'db %s']
        for text, esc in spellings:
            for ctx_line in contexts:
                src = (ctx_line % text) + '\n'
                res.evaluations += 1
                consts = {}
                try:
                    out = bytes(a.assemble(src, constants=consts))
                except Exception as e:
                    if ch not in "'\\":
                        res.fail('char:refused:%r' % ch, 'character literal %s is refused: %s' % (text, str(e)[-160:]), {'kind': 'char', 'source': src, 'ch': ch})
                    continue
                worked += 1
                res.nontrivial_count += 1
                if 'K = ' not in src:
                    want = struct.pack('<I', ord(ch) + 1) if 'dw' in src else bytes([ord(ch)])
                    if out != want:
                        res.fail('char:use:%r' % ch, '%s emits %s' % (src.strip(), out.hex()), {'kind': 'char', 'source': src, 'ch': ch})
                elif consts.get('K') != ord(ch):
                    res.fail('char:value:%r' % ch, 'K = %s gives %r, expected %d' % (text, consts.get('K'), ord(ch)), {'kind': 'char', 'source': src, 'ch': ch})
                elif 'addi' in src and out != _addi(ord(ch)):
                    res.fail('char:use:%r' % ch, 'addi with K = %s encodes %s' % (text, out.hex()), {'kind': 'char', 'source': src, 'ch': ch})
                elif 'dw' in src and out != struct.pack('<I', ord(ch)):
                    res.fail('char:use:%r' % ch, 'dw with K = %s emits %s' % (text, out.hex()), {'kind': 'char', 'source': src, 'ch': ch})
                elif 'db' in src and out != bytes([ord(ch)]):
                    res.fail('char:use:%r' % ch, 'db with K = %s emits %s' % (text, out.hex()), {'kind': 'char', 'source': src, 'ch': ch})
        if ch in "'\\" and not worked:
            res.fail('char:refused:%r' % ch, 'neither the raw nor the escaped spelling of %r works' % ch, {'kind': 'char', 'source': "K = '\\%s'\n" % ch, 'ch': ch})
    res.sample({'chars': 'all 95 printable ASCII characters and 6 non-ASCII ones, 4-7 contexts each'})
    return res


def _addi(imm):
    from vlib import rvref
    import struct
    return struct.pack('<I', rvref.enc32('addi', {'rd': 1, 'rs1': 0, 'imm': imm}))


def run(tier):
    chk = env.Check(PROP, tier)
    chk.rule = ('(1) Hypothesis IR programs with 2-8 constants (expression trees depth <= 5 over + - * // % << >> & | ^ ~ unary minus, '
                'parentheses, decimal/hex literals, earlier constants, character literals, register aliases) used as immediates, '
                'li operands, shift amounts, register aliases in real/pseudo/c.* instructions, data values and inside '
                '%hi/%lo/%position; oracle: constants dict == own evaluator, and bytes+labels == the same IR with values / '
                'registers written literally, both compression modes. (2) all 95 printable ASCII character literals and 6 non-ASCII ones (value = code point) in 4-7 contexts. '
                'non-trivial = expression depth >= 2 or a non-immediate usage site; distinct by (source, mode)')
    chk.merge(env.run_shards(chars_job, [(tier,)]))
    chk.merge(env.run_shards(redefinition_job, [(env.derive(chk.seed, PROP, 'redef', i), {'quick': 40, 'thorough': 2000}[tier]) for i in range(4)]))
    progcheck.run_sharded(chk, PROP, PROFILE, N[tier], 'judge', __name__)
    return chk.finish()


def replay(path):
    with open(path) as f:
        body = json.load(f)
    if body['case'].get('kind') == 'text':
        a = env.load_asm()
        r = progcheck.assemble(a, body['case']['source'], False)
        exp = body['case']['expect']
        if r[0] != 'ok' or {k: r[3].get(k) for k in exp} != exp:
            print('VIOLATION property=%s replay=%s' % (PROP, path))
            return env.EXIT_VIOLATION
        print('replay holds: %s' % path)
        return env.EXIT_OK
    if body['case'].get('kind') == 'char':
        a = env.load_asm()
        consts = {}
        try:
            src, code = body['case']['source'], ord(body['case']['ch'])
            out = bytes(a.assemble(src, constants=consts))
            if 'K = ' in src:
                bad = consts.get('K') != code or ('dw K' in src and out != struct.pack('<I', code)) or ('db K' in src and out != bytes([code]))
            else:
                bad = out != (struct.pack('<I', code + 1) if 'dw' in src else bytes([code]))
        except Exception:
            bad = True
        if bad:
            print('VIOLATION property=%s replay=%s' % (PROP, path))
            return env.EXIT_VIOLATION
        print('replay holds')
        return env.EXIT_OK
    return progcheck.replay_program(path, judge)
