"""C09 - output is the in-order concatenation of items; align pads minimally with zeros."""
from vlib import env, progcheck, strategies as S
from checks import _prog

PROP = 'C09'
OWNED = {'size/concat', 'align_pad'}
PROFILE = S.profile(w_align=7, w_data=7, w_li=4, w_calltail=2, w_group=1, w_branch=2, w_jal=1, w_labelval=0,
                    n_items=(3, 40), li_label=False, far=False)
N = {'quick': 2400, 'thorough': 240000}


def nontrivial(prog, w, comp, walks):
    aligns = [(i, it) for i, it in enumerate(prog.items) if it.kind == 'align']
    if len(aligns) >= 2:
        return True
    return any(w.seg[i][1] > 0 for i, it in aligns)


def judge(prog, res):
    walks = _prog.judge_walk(prog, res, PROP, OWNED, (False, True), nontrivial)
    for comp, v in walks.items():
        if v is None:
            continue
        w, r = v
        if w.discs:
            continue
        for i, it in enumerate(prog.items):
            if it.kind == 'align':
                res.count('align_residue_nonzero' if w.seg[i][1] else 'align_residue_zero')


def run(tier):
    chk = env.Check(PROP, tier)
    chk.rule = ('Hypothesis IR programs (profile layout: all item kinds, align N for N in 1..64 and '
                '{100,128,255,256,1000,4096} at every residue, odd data before, aligns after compressible and shrinking '
                'items), with and without compression; refwalk consumes the output exactly: label/constant 0 bytes, '
                'instruction 2/4 (self-describing), data its documented size and bytes, align = (-offset) mod N zero '
                'bytes. non-trivial = assembled program with >= 2 aligns or an align that pads > 0 bytes; distinct by '
                '(source, mode)')
    progcheck.run_sharded(chk, PROP, PROFILE, N[tier], 'judge', __name__)
    _prog.check_vacuity(chk)
    chk.assumptions = ['rvref decoder', 'instruction length is read from the low two bits of its first halfword']
    return chk.finish()


def replay(path):
    return progcheck.replay_program(path, judge)
