"""C10 - data directives emit exactly the documented bytes; misfitting values are refused."""
import json
import os
import random

from hypothesis import strategies as st

from vlib import env, ir, progcheck

PROP = 'C10'
SEQ = {'bytes': 1, 'shorts': 2, 'ints': 4, 'longs': 4, 'longlongs': 8}
SHORT = {'db': 1, 'dh': 2, 'dw': 4, 'dd': 8}
PACKC = {'b': 1, 'B': 1, 'h': 2, 'H': 2, 'i': 4, 'I': 4, 'l': 4, 'L': 4, 'q': 8, 'Q': 8}


def spell(rnd, v):
    k = rnd.randrange(4)
    mag, sign = abs(v), '-' if v < 0 else ''
    if k == 1:
        return sign + hex(mag)
    if k == 2:
        return sign + bin(mag)
    if k == 3:
        return sign + '0x%X' % mag
    return str(v)


def edge_value(rnd, lo, hi):
    """Value dense at both ends of [lo, hi], a few steps outside, or interior."""
    k = rnd.randrange(10)
    if k < 3:
        return lo + rnd.randrange(-3, 4)
    if k < 6:
        return hi + rnd.randrange(-3, 4)
    if k == 6:
        return rnd.choice([0, 1, -1, 2, -2])
    if k == 7:
        return rnd.choice([lo * 2, hi * 2 + 1, hi + (hi - lo), lo - (hi - lo), 1 << 64, -(1 << 63) - 1, (1 << 64) - 1])
    return rnd.randrange(lo, hi + 1)


def want_bytes(w, v, order='little', signed_only=False, unsigned_only=False):
    """Documented image of v in w bytes or None when v does not fit."""
    if signed_only:
        ok = -(1 << (8 * w - 1)) <= v < (1 << (8 * w - 1))
    elif unsigned_only:
        ok = 0 <= v < (1 << (8 * w))
    else:
        ok = -(1 << (8 * w - 1)) <= v < (1 << (8 * w))
    if not ok:
        return None
    return (v & ((1 << (8 * w)) - 1)).to_bytes(w, order)


def gen_line(rnd):
    """One data line: (text, expected bytes or None if it must be refused, non-trivial?)"""
    k = rnd.randrange(3)
    if k == 0:
        name = rnd.choice(list(SEQ))
        w = SEQ[name]
        lo, hi = -(1 << (8 * w - 1)), (1 << (8 * w)) - 1
        n = rnd.randrange(1, 5)
        vals = [edge_value(rnd, lo, hi) if rnd.randrange(3) == 0 else rnd.randrange(lo, hi + 1) for _ in range(n)]
        imgs = [want_bytes(w, v) for v in vals]
        sep = rnd.choice([' ', ', ', ','])
        text = name + ' ' + sep.join(spell(rnd, v) for v in vals)
        exp = None if any(i is None for i in imgs) else b''.join(imgs)
        nt = any(min(abs(v - lo), abs(v - hi)) <= 2 for v in vals)
        return text, exp, nt
    if k == 1:
        name = rnd.choice(list(SHORT))
        w = SHORT[name]
        lo, hi = -(1 << (8 * w - 1)), (1 << (8 * w)) - 1
        v = edge_value(rnd, lo, hi)
        return '%s %s' % (name, spell(rnd, v)), want_bytes(w, v), min(abs(v - lo), abs(v - hi)) <= 2
    code = rnd.choice(list(PACKC))
    w = PACKC[code]
    order = rnd.choice('<><>!=')      # (struct byte orders with standard sizes: little, big, network = big, native order)
    if code.islower():
        lo, hi = -(1 << (8 * w - 1)), (1 << (8 * w - 1)) - 1
    else:
        lo, hi = 0, (1 << (8 * w)) - 1
    v = edge_value(rnd, lo, hi)
    import sys as _sys
    exp = want_bytes(w, v, {'<': 'little', '>': 'big', '!': 'big', '=': _sys.byteorder}[order], signed_only=code.islower(), unsigned_only=code.isupper())
    return 'pack %s%s%s%s' % (order, code, rnd.choice([' ', ', ']), spell(rnd, v)), exp, min(abs(v - lo), abs(v - hi)) <= 2


def numeric_job(n, shard):
    a = env.load_asm()
    res = env.Result()
    rnd = random.Random(env.derive(env.seed_value(), PROP, 'num', shard))
    good = []
    for _ in range(n):
        text, exp, nt = gen_line(rnd)
        res.evaluations += 1
        if nt:
            res.nt(env.chash(text))
        if exp is None:
            res.count('must_refuse')
            try:
                out = bytes(a.assemble(text + '\n'))
            except Exception:
                continue
            res.fail('accepted:%s' % text.split()[0], 'line %r has a value that does not fit its width but assembles to %s' % (text, out.hex()),
                     {'kind': 'line', 'source': text + '\n', 'expect': None})
        else:
            good.append((text, exp))
            if len(good) == 40:
                _flush(a, good, res)
                good = []
    _flush(a, good, res)
    return res


def _flush(a, good, res):
    if not good:
        return
    src = '\n'.join(t for t, _ in good) + '\n'
    exp = b''.join(e for _, e in good)
    try:
        out = bytes(a.assemble(src))
    except Exception:
        out = None
    res.count('must_accept', len(good))
    if out == exp:
        if res.evaluations % 3000 < 45:
            res.sample({'data_lines': [t for t, _ in good[:4]]})
        return
    for text, e in good:
        try:
            o = bytes(a.assemble(text + '\n'))
        except Exception as ex:
            res.fail('refused:%s' % text.split()[0], 'line %r fits its width but is refused: %s' % (text, str(ex)[-150:]),
                     {'kind': 'line', 'source': text + '\n', 'expect': e.hex()})
            continue
        if o != e:
            res.fail('bytes:%s' % (text.split()[0] if not text.startswith('pack') else 'pack ' + text.split()[1][:2]),
                     'line %r emits %s, documented image is %s' % (text, o.hex(), e.hex()),
                     {'kind': 'line', 'source': text + '\n', 'expect': e.hex()})
    if out is not None and all(True for _ in good) and not res.failures:
        res.fail('concat', 'each of %d data lines is right alone but the program emits different bytes' % len(good), {'kind': 'line', 'source': src, 'expect': exp.hex()})


# ---- strings -------------------------------------------------------------------------------------------

LINEBREAKS = set('\n\r\x0b\x0c\x1c\x1d\x1e\x85  ')
SAFE_ASCII = [chr(c) for c in range(0x20, 0x7f) if chr(c) != '\\']
NONASCII = list('éßÿ×÷πЖ→日本語€😀𝄞') + [' ', 'ÿ', 'Ā', '߿', 'ࠀ', '￿', '\U00010000', '\U0010ffff']
# text that is not stable under Unicode normalisation (combining marks, compatibility characters, conjoining jamo) and quoted
# single characters (a character literal everywhere else - plain text here)
UNSTABLE = ['\ufeff', 'a\ufeffb', 'e\u0301', '\u2126', '\u212b', '\u1112\u1161\u11ab', 'n\u0303', '\ufb01', '\u00b5', '\u1e9b\u0323']
# words that start other directives, and a literal TAB, in the middle of the text
WORDS = ['fatal error in sector 7', ' error ', 'the string table', ' string x', 'a\tb', 'col1\tcol2\t', ' include me', ' align 4', ' # not a comment', '  two  blanks  ']
QUOTED = ["'q'", "','", "'#'", "' '", "'0'", "';'", "'('", "it's", "'ab'", "''", "'\\n'"]
ESCAPES = ['\\n', '\\t', '\\r', '\\\\', '\\"', "\\'", '\\0', '\\x41', '\\x7f', '\\x00', '\\xe9', '\\xff', '\\u00e9', '\\u2192', '\\u0041', '\\uffff']


@st.composite
def string_raw(draw):
    parts = []
    n = draw(st.integers(1, 14))
    for _ in range(n):
        k = draw(st.integers(0, 12))
        if k == 12:
            parts.append(draw(st.sampled_from(WORDS)))
        elif k == 10:
            parts.append(draw(st.sampled_from(UNSTABLE)))
        elif k == 11:
            parts.append(draw(st.sampled_from(QUOTED)))
        elif k <= 4:
            parts.append(draw(st.sampled_from(SAFE_ASCII)))
        elif k <= 6:
            parts.append(draw(st.sampled_from(NONASCII)))
        elif k == 7:
            cp = draw(st.integers(0xa0, 0x10ffff))
            if 0xd800 <= cp <= 0xdfff or chr(cp) in LINEBREAKS:
                cp = 0xe9
            parts.append(chr(cp))
        else:
            parts.append(draw(st.sampled_from(ESCAPES)))
    # \0 must not be followed by an octal digit (python would read an octal escape); fix by construction
    out = []
    for i, p in enumerate(parts):
        out.append(p)
        if p == '\\0' and i + 1 < len(parts) and parts[i + 1][:1] in '01234567':
            out.append('_')
    return ''.join(out)


def judge_string(case, res):
    raw, indent, with_label, eol = case
    a = env.load_asm()
    res.evaluations += 1
    # (the line terminator - LF or CR LF - is not part of the text: "til end of line")
    src = ('start:' + eol if with_label else '') + indent + 'string ' + raw + eol + ('end_:' + eol if with_label else '')
    if eol != '\n':
        res.count('string_crlf' if eol == '\r\n' else 'string_cr_only')
    exp = ir.unescape(raw).encode('utf-8')
    labels = {}
    try:
        if len(raw) % 3 == 0:
            # one string in three reaches the assembler as a UTF-8 FILE instead of as source text
            res.count('string_from_file')
            with env.scratch_dir('bbv-c10s-') as d:
                with open(os.path.join(d, 'text.asm'), 'w', encoding='utf-8', newline='') as f:
                    f.write(src)
                out = bytes(a.assemble(os.path.join(d, 'text.asm'), labels=labels))
        else:
            out = bytes(a.assemble(src, labels=labels))
    except Exception as e:
        raise env.CaseFailure('string:refused', 'string line %r is refused: %s' % (raw, str(e)[-200:]), {'kind': 'string', 'source': src, 'expect': exp.hex()})
    if out != exp:
        cls = 'nonascii' if any(ord(c) > 127 for c in raw) else ('escape' if '\\' in raw else 'ascii')
        raise env.CaseFailure('string:bytes:%s' % cls, 'string %r emits %s, UTF-8 of the escape-processed text is %s' % (raw, out.hex(), exp.hex()),
                              {'kind': 'string', 'source': src, 'expect': exp.hex()})
    if with_label and labels.get('end_') != len(exp):
        raise env.CaseFailure('string:size', 'label after string %r is at %r, string has %d bytes' % (raw, labels.get('end_'), len(exp)),
                              {'kind': 'string', 'source': src, 'expect': exp.hex()})
    if any(ord(c) > 127 for c in raw) or '\\' in raw:
        res.nt(env.chash(raw))
        res.count('string_nonascii' if any(ord(c) > 127 for c in raw) else 'string_escape')
    if (any(ord(c) > 127 for c in raw) or '\\' in raw) and len(raw) > 4 and res.evaluations % 20 == 0:
        res.sample({'string': raw, 'bytes': exp.hex(), 'line ending': {'\n': 'LF', '\r\n': 'CR LF', '\r': 'CR'}[eol]})


def string_job(n, shard):
    res = env.Result()
    strat = st.tuples(string_raw(), st.sampled_from(['', '  ', '\t']), st.booleans(), st.sampled_from(['\n', '\n', '\r\n', '\r']))
    env.run_hypothesis(judge_string, strat, n, env.derive(env.seed_value(), PROP, 'str', shard), res, env.load_known(), PROP, shrink=True)
    return res


# ---- include_bytes ---------------------------------------------------------------------------------------

def blob(seed, n):
    r = random.Random(seed)
    return bytes(r.randrange(256) for _ in range(n)) if n < 4096 else r.randbytes(n)


@st.composite
def incbytes_case(draw):
    size = draw(st.sampled_from([0, 1, 2, 3, 255, 256, 1023, 1024, 4097, 65536])) if draw(st.booleans()) else draw(st.integers(0, 3000))
    return {
        'size': size,
        'seed': draw(st.integers(0, 2 ** 32)),
        'where': draw(st.sampled_from(['adjacent', 'incdir', 'subdir_adjacent', 'symlink_dotdot', 'absolute'])),
        'cwd': draw(st.sampled_from(['srcdir', 'root', 'elsewhere', 'elsewhere_decoy'])),
        'main_rel': draw(st.booleans()),
        'before': draw(st.integers(0, 3)),
        'name': draw(st.sampled_from(['blob.bin', 'cat.jpg', 'data_1.dat', 'prelude.forth', 'Font.bin', 'README.TXT', 'Data_2.Dat'])),
    }


def judge_incbytes(c, res):
    a = env.load_asm()
    res.evaluations += 1
    content = blob(c['seed'], c['size'])
    with env.scratch_dir('bbv-c10-') as root:
        srcdir = os.path.join(root, 'proj', 'src')
        incdir = os.path.join(root, 'assets')
        other = os.path.join(root, 'other')
        for d in (srcdir, incdir, other, os.path.join(srcdir, 'sub')):
            os.makedirs(d)
        name = c['name']
        written = name
        include_dirs = None
        if c['where'] == 'adjacent':
            target = os.path.join(srcdir, name)
        elif c['where'] == 'incdir':
            target = os.path.join(incdir, name)
            include_dirs = [incdir]
        elif c['where'] == 'absolute':
            # the file named by its absolute path (a same-named decoy sits next to the program)
            os.makedirs(os.path.join(root, 'abs', 'assets'))
            target = os.path.join(root, 'abs', 'assets', name)
            written = target
            with open(os.path.join(srcdir, name), 'wb') as f:
                f.write(b'DECOY' + blob(c['seed'] + 4, max(0, c['size'] - 5)))
        elif c['where'] == 'symlink_dotdot':
            # src/link -> vendor/pkg, written link/../<name>: the operating system resolves that to vendor/<name>; a textual
            # collapse of "link/.." would name src/<name> instead (an equally long decoy sits there)
            os.makedirs(os.path.join(root, 'vendor', 'pkg'))
            os.symlink(os.path.join(root, 'vendor', 'pkg'), os.path.join(srcdir, 'link'))
            target = os.path.join(root, 'vendor', name)
            written = 'link/../' + name
            with open(os.path.join(srcdir, name), 'wb') as f:
                f.write(b'DECOY' + blob(c['seed'] + 2, max(0, c['size'] - 5)))
        else:
            target = os.path.join(srcdir, 'sub', name)
            written = 'sub/' + name
        with open(target, 'wb') as f:
            f.write(content)
        if name != name.lower():
            # file names are case-sensitive: an all-lower-case twin of the same size sits right next to the real file
            with open(os.path.join(os.path.dirname(target), name.lower()), 'wb') as f:
                f.write(b'lower' + blob(c['seed'] + 3, max(0, c['size'] - 5)))
        decoy = b'DECOY' + blob(c['seed'] + 1, max(0, c['size'] - 5))
        if c['cwd'] == 'elsewhere_decoy' and c['where'] not in ('symlink_dotdot', 'absolute'):
            os.makedirs(os.path.join(other, 'sub'), exist_ok=True)
            with open(os.path.join(other, written), 'wb') as f:
                f.write(decoy)
        pre = b''.join(bytes([i + 1]) * 4 for i in range(c['before']))
        lines = ['dw 0x%08x' % int.from_bytes(bytes([i + 1]) * 4, 'little') for i in range(c['before'])]
        src = '\n'.join(lines + ['first:', 'include_bytes ' + written, 'after:', 'db 0x7e']) + '\n'
        main = os.path.join(srcdir, 'main.asm')
        with open(main, 'w') as f:
            f.write(src)
        cwd = {'srcdir': srcdir, 'root': root, 'elsewhere': other, 'elsewhere_decoy': other}[c['cwd']]
        exp = pre + content + b'\x7e'
        with env.cwd(cwd):
            path = os.path.relpath(main, cwd) if c['main_rel'] else main
            labels = {}
            try:
                out = bytes(a.assemble(path, labels=labels, include_dirs=include_dirs))
                err = None
            except BaseException as e:
                out, err = None, e
    sigbase = 'incbytes:%s:%s' % (c['where'], 'cwd=src' if c['cwd'] == 'srcdir' else 'cwd!=src')
    if err is not None:
        raise env.CaseFailure(sigbase + ':refused', 'include_bytes %s (file %s, cwd %s) fails: %s: %s' % (written, c['where'], c['cwd'], type(err).__name__, str(err)[-200:]),
                              {'kind': 'incbytes', 'params': c})
    if out != exp:
        what = 'the decoy from the working directory' if (c['cwd'] == 'elsewhere_decoy' and out == pre + decoy + b'\x7e') else 'other bytes'
        raise env.CaseFailure(sigbase + ':bytes', 'include_bytes %s (file %s, cwd %s) embeds %s (%d bytes, expected %d)' % (written, c['where'], c['cwd'], what, len(out), len(exp)),
                              {'kind': 'incbytes', 'params': c})
    if labels.get('after') != len(pre) + len(content):
        raise env.CaseFailure(sigbase + ':size', 'label after include_bytes at %r, expected %d' % (labels.get('after'), len(pre) + len(content)), {'kind': 'incbytes', 'params': c})
    if c['cwd'] != 'srcdir':
        res.nt(env.chash(sorted(c.items())))
    res.count('incbytes:' + c['where'] + ':' + c['cwd'])
    if res.evaluations % 40 == 1:
        res.sample({'include_bytes': c})


def incbytes_job(n, shard):
    res = env.Result()
    env.run_hypothesis(judge_incbytes, incbytes_case(), n, env.derive(env.seed_value(), PROP, 'inc', shard), res, env.load_known(), PROP, shrink=True)
    return res


def _dispatch(fn, *args):
    return fn(*args)


def run(tier):
    chk = env.Check(PROP, tier)
    n_num, n_str, n_inc = {'quick': (24000, 3200, 320), 'thorough': (1000000, 200000, 10000)}[tier]
    jobs = [(numeric_job, n_num // env.NPROC, s) for s in range(env.NPROC)]
    jobs += [(string_job, n_str // env.NPROC, s) for s in range(env.NPROC)]
    jobs += [(incbytes_job, n_inc // env.NPROC, s) for s in range(env.NPROC)]
    chk.merge(env.run_shards(_dispatch, jobs))
    chk.rule = ('(1) %d seeded data lines (bytes/shorts/ints/longs/longlongs, db/dh/dw/dd, pack x {<,>} x bBhHiIlLqQ) with values dense at '
                'both range ends, just outside, far outside and interior, in decimal/hex/binary: own int.to_bytes image or mandatory '
                'refusal; (2) %d Hypothesis strings over ASCII, Latin-1, BMP and astral characters and the documented escapes: UTF-8 '
                'of own escape processing; (3) %d include_bytes file trees (file adjacent / in a -i directory / in a sub-directory / behind symlinkdir/.. ; cwd = '
                'source dir, root, elsewhere, elsewhere with a same-named decoy; main path absolute or relative). non-trivial = value '
                'within 2 of a range end, string with a non-ASCII character or escape, include_bytes with cwd != source dir; '
                'distinct by line text / string / parameter tuple' % (n_num, n_str, n_inc))
    chk.assumptions = ['own escape processor (vlib/ir.py unescape) covers exactly the documented escapes that are generated']
    return chk.finish()


def replay(path):
    with open(path) as f:
        body = json.load(f)
    c = body['case']
    a = env.load_asm()
    why = None
    if c['kind'] in ('line', 'string'):
        try:
            out = bytes(a.assemble(c['source']))
            if c.get('expect') is None:
                why = '%r accepted -> %s' % (c['source'], out.hex())
            elif out.hex() != c['expect']:
                why = '%r -> %s, expected %s' % (c['source'], out.hex(), c['expect'])
        except Exception as e:
            if c.get('expect') is not None:
                why = '%r refused: %s' % (c['source'], e)
    else:
        try:
            judge_incbytes(c['params'], env.Result())
        except env.CaseFailure as cf:
            why = cf.what
    if why:
        print('VIOLATION property=%s replay=%s' % (PROP, path))
        print('  ' + why[:800])
        return env.EXIT_VIOLATION
    print('replay holds: %s' % path)
    return env.EXIT_OK
