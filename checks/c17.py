"""C17 - the command line writes exactly the assembled program, or nothing on failure."""
import json
import os
import re
import subprocess
import sys

from hypothesis import strategies as st

from vlib import env, ihex, ir, progcheck, strategies as S
from checks import c15

PROP = 'C17'
PROFILE = S.profile(n_items=(1, 16), far=False, big_gaps=False, w_group=0, n_consts=(0, 3), n_labels=(0, 4), odd_data=False, labelval_direct=False)
N = {'quick': 640, 'thorough': 30000}
SENTINEL = {'out': b'OLD-BINARY\x00\x01', 'lab': b'old_label 0x00000bad\n', 'hex': b':00000001FF\n'}
CLI = [sys.executable, '-c', 'import sys; from bronzebeard.asm import cli_main; sys.exit(cli_main())']


@st.composite
def cases(draw, rot=0):
    prog = draw(S.programs(PROFILE))
    lines = [it.render(ir.Style(0)) for it in prog.items]
    labs = [it.name for it in prog.items if it.kind == 'label']
    if labs and draw(st.integers(0, 2)) == 0:
        # (round 10) one program in three gives its first label a long name (the -l file has one line per label, whatever its length)
        pat = re.compile(r'(?<![\w.%%])%s(?!\w)' % re.escape(labs[0]))
        lines = [pat.sub(labs[0] + '_receive_buffer_overflow_handler_entry', ln) for ln in lines]
        labs[0] += '_receive_buffer_overflow_handler_entry'
    fault = None
    if draw(st.integers(0, 2)) == 0:
        faults = [f for f in c15.FAULTS if '{far}' not in f[1] and f[0] != 'duplabel']
        cls, text = draw(st.sampled_from(faults[rot % len(faults):] + faults[:rot % len(faults)]))
        text = text.replace('{label}', labs[0] if labs else 'nowhere_0')
        lines.insert(draw(st.integers(0, len(lines))), text)
        fault = (cls, text)
    defs = draw(st.integers(0, 4)) == 0
    if defs:
        lines = ['include GD32VF103.asm', 'li t0, MTIME_BASE_ADDR', 'li t1, MTIMECMP_LO_OFFSET'] + lines
    hexk = draw(st.sampled_from(['none', 'none', 'legal', 'legal', 'malformed']))
    hexoff = None
    if hexk == 'legal':
        hexoff = draw(st.sampled_from(['0', '0x08000000', '0x20000000', '65528', '0xfffe', '0x10000', '1', '0xffff0000'])) if draw(st.booleans()) \
            else str(draw(st.integers(0, 0xfff00000)))
    elif hexk == 'malformed':
        hexoff = draw(st.sampled_from(['zz', '12q', '0xg', 'offset', '1.5', '0x']))
    return {
        'lines': lines, 'fault': fault, 'defs': defs, 'compress': draw(st.booleans()), 'hexoff': hexoff,
        'o': draw(st.sampled_from(['default', 'out.bin', 'build/fw.bin', 'fw.hex', 'build/OUT.HEX'])), 'l': draw(st.sampled_from([None, 'labels.txt', 'build/fw.labels'])),
        # where the program lives relative to the working directory (output paths are relative to the working directory)
        'src': draw(st.sampled_from(['cwd', 'cwd', 'sub', 'abs', 'symlink', 'stdin'])),
        'incfile': draw(st.booleans()),
        # older output files: none / unrelated contents / the -o file already holds exactly this program (a rebuild), the others stale
        'old': draw(st.sampled_from([False, True, True, 'same', 'empty'])),     # 'empty': the older -o file has no bytes
        'incname': draw(st.sampled_from(['inc', 'inc', 'inc:v2', 'my inc'])),
        'irel': draw(st.booleans()),      # the -i directory given relative to the working directory 'tags': prog.tags, 'verbose': draw(st.integers(0, 3)) == 0,
    }


def judge(c, res):
    a = env.load_asm()
    res.evaluations += 1
    with env.scratch_dir('bbv-c17-') as root:
        work = os.path.join(root, 'work')
        os.makedirs(os.path.join(work, 'build'))
        incdir = os.path.join(root, c.get('incname', 'inc'))    # (a ':' or a blank in a directory name is nothing special)
        os.makedirs(incdir)
        lines = list(c['lines'])
        if c['incfile'] and len(lines) >= 2:
            k = len(lines) // 2
            with open(os.path.join(incdir, 'part.asm'), 'w', encoding='utf-8') as f:
                f.write('\n'.join(lines[k:]) + ('\n' if len(lines) % 3 else ''))    # (one in three without a final newline)
            lines = lines[:k] + ['include part.asm']
        srck = c.get('src', 'cwd')
        if srck == 'stdin' and not os.path.exists('/dev/stdin'):
            srck = 'cwd'
            res.count('no_dev_stdin')
        srcdir = {'cwd': work, 'sub': os.path.join(work, 'src'), 'abs': os.path.join(root, 'proj'), 'symlink': work, 'stdin': work}[srck]
        os.makedirs(srcdir, exist_ok=True)
        main_path = os.path.join(srcdir, 'main.asm')
        # 'stdin': the program is piped in and named /dev/stdin (an input path need not be a regular file; its includes come from -i)
        main_arg = {'cwd': 'main.asm', 'sub': os.path.join('src', 'main.asm'), 'abs': main_path, 'symlink': 'main.asm', 'stdin': '/dev/stdin'}[srck]
        real_path = main_path
        if srck == 'symlink':
            # main.asm is a symbolic link into another directory; a file it includes sits next to the LINK (files are searched
            # relative to the file containing the include - the name that was given, as the API does)
            os.makedirs(os.path.join(root, 'store'))
            real_path = os.path.join(root, 'store', 'main_v2.asm')
            os.symlink(real_path, main_path)
            with open(os.path.join(work, 'near.asm'), 'w') as f:
                f.write('NEAR_K = 21\n')
            lines = ['include near.asm', 'addi x5, x5, NEAR_K'] + lines
        with open(real_path, 'w', encoding='utf-8') as f:
            f.write('\n'.join(lines) + ('\n' if (len(lines) + len(c['lines'])) % 3 else ''))    # (one in three without a final newline)
        o_rel = 'bb.out' if c['o'] == 'default' else c['o']
        paths = {'out': os.path.join(work, o_rel), 'hex': os.path.join(work, o_rel + '.hex')}
        if c['l']:
            paths['lab'] = os.path.join(work, c['l'])
        # reference: the API on the same input (what the bytes mean is C03-C11's business)
        inc = [incdir] + ([os.path.join(os.path.dirname(os.path.abspath(a.__file__)), 'definitions')] if c['defs'] else [])
        with env.cwd(work):
            ref = progcheck.assemble(a, main_path, c['compress'], include_dirs=inc)
        if c['old']:
            for k, p in paths.items():
                with open(p, 'wb') as f:
                    f.write(ref[1] if (c['old'] == 'same' and k == 'out' and ref[0] == 'ok') else b'' if (c['old'] == 'empty' and k == 'out') else SENTINEL[k])
        before = snapshot(root)
        argv = [main_arg]
        if c['compress']:
            argv.insert(0, '-c')
        argv = ['-i', os.path.relpath(incdir, work) if c.get('irel') else incdir] + argv
        if c['o'] != 'default':
            argv = ['-o', c['o']] + argv
        if c['l']:
            argv = ['-l', c['l']] + argv
        if c['hexoff'] is not None:
            argv = ['--hex-offset', c['hexoff']] + argv
        if c['defs']:
            # before or after the other options (in particular after -i)
            argv = (['--include-definitions'] + argv) if len(c['lines']) % 2 else (argv[:-1] + ['--include-definitions'] + argv[-1:])
        if c.get('verbose'):
            argv = ['-v'] + argv
        piped = open(real_path, 'rb').read() if srck == 'stdin' else b''
        p = subprocess.run(CLI + argv, cwd=work, env=env.repo_python_env(), input=piped, stdout=subprocess.PIPE, stderr=subprocess.PIPE, timeout=120)
        after = snapshot(root)
        files = {k: (open(pth, 'rb').read() if os.path.exists(pth) else None) for k, pth in paths.items()}
    payload = {'kind': 'cli', 'params': c}
    desc = 'argv=%r exit=%d stderr=%r' % (argv, p.returncode, p.stderr.decode('utf-8', 'replace')[-300:])
    expect_fail = ref[0] != 'ok' or (c['hexoff'] is not None and not _is_int(c['hexoff']))
    if p.returncode == 0:
        if expect_fail:
            raise env.CaseFailure('cli:exit0_on_failure:%s' % ('hexoffset' if ref[0] == 'ok' else (c['fault'][0] if c['fault'] else 'other')),
                                  'run should fail (%s) but exits 0\n  %s' % ('API refuses: ' + str(ref[1])[-150:] if ref[0] != 'ok' else 'malformed --hex-offset', desc), payload)
        if files['out'] != ref[1]:
            raise env.CaseFailure('cli:output', '-o file holds %r..., assemble() gives %r...\n  %s' % ((files['out'] or b'')[:16], ref[1][:16], desc), payload)
        if c['l']:
            want = ''.join('%s 0x%08x\n' % (k, v) for k, v in ref[2].items())
            got = (files['lab'] or b'').decode('utf-8', 'replace')
            parsed = {}
            okfmt = True
            for ln in got.splitlines():
                # one line per label: a name and its address (any integer spelling; the exact layout is not documented)
                m = re.fullmatch(r'\s*(\S+?)[\s:=,]+(-?(?:0[xX][0-9a-fA-F]+|\d+))\s*', ln)
                if not m or m.group(1) in parsed:
                    okfmt = False
                    break
                parsed[m.group(1)] = int(m.group(2), 0) if not m.group(2).lstrip('-').isdigit() else int(m.group(2))
            if not okfmt or parsed != ref[2]:
                raise env.CaseFailure('cli:labels', '-l file %r does not list exactly the labels %r\n  %s' % (got[:200], ref[2], desc), payload)
        if c['hexoff'] is not None:
            try:
                mem = ihex.parse((files['hex'] or b'').decode('ascii', 'replace'))
                lo, data = ihex.image(mem)
            except ihex.IhexError as e:
                raise env.CaseFailure('cli:hex', 'Intel HEX file is malformed: %s\n  %s' % (e, desc), payload)
            off = int(c['hexoff'], 0)
            if data != ref[1] or (data and lo != off):
                raise env.CaseFailure('cli:hex', 'Intel HEX decodes to %d bytes at 0x%x, expected %d bytes at 0x%x\n  %s' % (len(data), lo or 0, len(ref[1]), off, desc), payload)
        res.count('success')
        if c['hexoff'] is not None:
            res.nt(env.chash(sorted((k, repr(v)) for k, v in c.items())))
            res.count('success_with_hex')
    else:
        if not expect_fail:
            raise env.CaseFailure('cli:fails', 'API assembles the program but the command line exits %d\n  %s' % (p.returncode, desc), payload)
        if after != before:
            changed = sorted(k for k in set(before) | set(after) if before.get(k) != after.get(k))
            raise env.CaseFailure('cli:clobber:%s' % ('hexoffset' if ref[0] == 'ok' else 'assembly'),
                                  'failing run (exit %d) changed %r (pre-existing output files: %s)\n  %s' % (p.returncode, changed, c['old'], desc), payload)
        res.count('failure:' + ('hexoffset' if ref[0] == 'ok' else (c['fault'][0] if c['fault'] else 'other')))
        if c['old']:
            res.nt(env.chash(sorted((k, repr(v)) for k, v in c.items())))
            res.count('failure_with_old_files')
    if res.evaluations % 23 == 1:
        res.sample({'argv': argv, 'exit': p.returncode, 'main.asm': '\n'.join(lines)[:300]})


def _is_int(s):
    try:
        int(s, 0)
        return True
    except ValueError:
        return False


def snapshot(d):
    out = {}
    for dp, _, files in os.walk(d):
        for fn in files:
            p = os.path.join(dp, fn)
            with open(p, 'rb') as f:
                out[os.path.relpath(p, d)] = f.read()
    return out


def shard(n, s):
    res = env.Result()
    env.run_hypothesis(judge, cases(s * 5), n, env.derive(env.seed_value(), PROP, s), res, env.load_known(), PROP, shrink=False, max_rounds=12)
    return res


def run(tier):
    chk = env.Check(PROP, tier)
    chk.rule = ('Hypothesis: generated programs (valid, or with one planted fault of the C15 classes so that failures come from every pass), '
                'optionally with an include from a -i directory and --include-definitions, x option combinations (-c, -v, -o default/'
                'file/subdir/a name that itself ends in .hex, program in the working directory / a subdirectory / elsewhere by absolute path, -l, --hex-offset legal 0..0xfff00000 or malformed), run as a SUBPROCESS of the real entry point in a scratch '
                'directory that (in three cases out of four) already holds older -o, -l and .hex files (unrelated contents, or - a rebuild - the -o file already holding exactly this program); the -i directory name may contain a colon or a blank. success: exit 0, -o bytes == assemble(), -l '
                'parses to exactly the label table, .hex parsed by an own Intel HEX reader == bytes at the offset; failure: exit != 0 and the '
                'directory byte-identical to before. non-trivial = failing run with pre-existing files, or success with --hex-offset; '
                'distinct by parameter tuple')
    per = max(1, N[tier] // env.NPROC)
    chk.merge(env.run_shards(shard, [(per, s) for s in range(env.NPROC)]))
    chk.assumptions = ['unwritable output paths are environment faults outside the stated quantifier and are not generated',
                       'what the bytes mean is left to C01-C11: the API result on the same input is the reference']
    return chk.finish()


def replay(path):
    with open(path) as f:
        body = json.load(f)
    c = body['case']['params']
    if c.get('fault'):
        c['fault'] = tuple(c['fault'])
    try:
        judge(c, env.Result())
    except env.CaseFailure as cf:
        print('VIOLATION property=%s replay=%s' % (PROP, path))
        print('  ' + str(cf.what)[:1200])
        return env.EXIT_VIOLATION
    print('replay holds: %s' % path)
    return env.EXIT_OK
