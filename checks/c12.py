"""C12 - a program that assembles without compression also assembles with it."""
from hypothesis import strategies as st

from vlib import env, progcheck, strategies as S
from checks import _prog

PROP = 'C12'
PROFILES = [
    S.profile(p_compressible=0.8, w_labelval=8, w_li=5, w_calltail=4, w_group=3, p_const_operand=0.35, p_alias=0.25,
              n_consts=(1, 6), w_shift=6, w_imm=8, w_load=5, w_store=5, w_upper=4),
    S.profile(p_compressible=0.6, w_labelval=3, w_data=4, w_align=3, w_cinsn=3, p_const_operand=0.2, n_consts=(0, 4)),
]
N = {'quick': 3200, 'thorough': 400000}


ENCODER_32BIT_MESSAGES = ('12-bit immediate', '12-bit MO2 immediate', '20-bit immediate', '20-bit MO2 immediate')


def layout_dependent_operand(prog, e):
    """True when the -c-only refusal is the KNOWN, inherent case: the refused line has an operand that depends on labels (or is a
    transfer to a label) and it is refused by the range / multiple-of check of the instruction AS WRITTEN - the 32-bit encoder
    of a 32-bit source instruction or pseudo-instruction, or the own encoder of an explicitly written c.* instruction.  The value
    simply is different in the compressed layout (labels move, align padding changes) and no longer representable there.
    A refusal by a c.* encoder that the COMPRESSOR chose for a 32-bit source instruction is something else (a decision taken on
    a value that changed afterwards) and keeps its own signature."""
    ln = getattr(getattr(e, 'line', None), 'number', None)
    msg = getattr(e, 'message', '') or ''
    if ln is None or not (1 <= ln <= len(prog.items)):
        return False
    if not ('must be between' in msg or 'multiple of' in msg or 'muliple of' in msg or 'constraint failed' in msg):
        return False
    it = prog.items[ln - 1]
    vals = list(it.ops.values()) if it.kind == 'insn' else (list(it.ops) if it.kind == 'pseudo' else [])
    dep = any(isinstance(x, str) or getattr(x, 'label_dep', False) for x in vals)
    if not dep:
        return False
    explicit_c = it.kind == 'insn' and it.mn.startswith('c.')
    own_32 = msg.startswith(ENCODER_32BIT_MESSAGES)
    return explicit_c or own_32


def judge(prog, res):
    a = _prog.get_asm()
    src = prog.text()
    res.evaluations += 1
    u = progcheck.assemble(a, src, False)
    for t in prog.tags:
        res.count('gen:' + t)
    if u[0] != 'ok':
        res.count('refused_without_c')
        if prog.expected_ok:
            res.count('expected_ok_refused')
        return
    if prog.expected_ok:
        res.count('expected_ok_assembled')
    c = progcheck.assemble(a, src, True)
    if c[0] != 'ok':
        e = c[1]
        sig = 'only_with_c:%s' % progcheck.exc_sig(e)
        if layout_dependent_operand(prog, e):
            sig = 'only_with_c:layout_dependent_operand'
        line = getattr(getattr(e, 'line', None), 'contents', None)
        raise env.CaseFailure(sig, 'assembles without -c (%d bytes) but with -c: %s: %s%s' % (
            len(u[1]), type(e).__name__, str(e)[-300:], '\n  line: %r' % line if line else ''), progcheck.case_of(prog, True))
    res.count('accepted_both')
    changed = c[1] != u[1]
    if changed or 'const_shamt' in prog.tags or 'labelval' in prog.tags:
        res.nt(env.chash(src))
    if changed:
        res.count('output_changed_by_c')
    if res.evaluations % 101 == 1:
        res.sample({'bytes_without_c': len(u[1]), 'bytes_with_c': len(c[1]), 'source': src[:500]})


PRES = [('nop',), ('li x5, 5',), ('mv x5, x6',), ('nop', 'nop', 'nop'), ('add x8, x8, x9',), ('nop', 'align 64'), ('dh 1', 'align 8', 'nop'), (),
        ('align 64',) + ('addi x8, x8, 1',) * 8, ('align 4096', 'nop'), ('li x5, 5',) * 80, ('li x5, 5',) * 300, ('mv x5, x6',) * 150 + ('align 16',)]


def const_target_job(lo, hi):
    """call / tail / j / jal to a CONSTANT (absolute) address at the edge of the near range, behind code that shrinks (with -c, or
    through an align): the assembler chooses between jal and auipc+jalr itself, so whatever assembles without -c must assemble
    with it - and a target that is in reach of the far form must be accepted in both modes."""
    a = env.load_asm()
    res = env.Result()
    for pre in PRES[lo:hi]:
        pess = sum(int(p.split()[1]) if p.startswith('align') else 2 if p.startswith('dh') else 8 if p.startswith('li') else 4 for p in pre)
        for edge in (1 << 20, -(1 << 20), 2048, -2048, 256, -256, 0, 32, -32, 128):
            heavy = len(pre) > 20
            ds = list(((-8, 0, 8) if abs(edge) > 256 else (-40, 0, 40)) if heavy else (range(-12, 14, 2) if abs(edge) > 256 else range(-48, 50, 4)))
            if edge > 256:
                # the item can still move down by up to its pessimistic position: targets that many bytes (and fractions of it) short of the edge
                ds += sorted({-(pess * k // 8) // 2 * 2 for k in range(1, 9)} - set(ds))
            for d in ds:
                K = pess + edge + d
                if K < 0:
                    continue
                names = ('call', 'tail', 'j', 'jal', 'beqz x8,', 'bne x9, x0,') if abs(edge) > 128 or edge == 0 else \
                    ('addi x8, x8, %lo(%offset(@))', 'addi x9, x0, %offset(@)', 'lw x9, x8, %lo(%offset(@))', 'andi x8, x8, %offset(@)')
                for name in names:
                    last = name.replace('@', 'KTARGET') if '@' in name else '%s KTARGET' % name
                    src = 'KTARGET = %d\n' % K + ''.join(p + '\n' for p in pre) + last + '\n'
                    res.evaluations += 1
                    u = progcheck.assemble(a, src, False)
                    c = progcheck.assemble(a, src, True)
                    if name in ('call', 'tail') and u[0] != 'ok':
                        res.fail('const_target:refused:%s' % name, '%r is refused without -c although the far form reaches every 32-bit address: %s' % (src, str(u[1])[-160:]),
                                 {'kind': 'text', 'source': src})
                    elif u[0] == 'ok' and c[0] != 'ok' and name in ('call', 'tail'):
                        res.fail('only_with_c:const_target:%s' % name, '%r assembles without -c and is refused with it: %s' % (src, str(c[1])[-160:]), {'kind': 'text', 'source': src})
                    elif u[0] == 'ok' and c[0] != 'ok' and any(t in str(c[1]) for t in ('8-bit MO2', '11-bit MO2', '6-bit', '5-bit', 'MO4')):
                        # refused by the range check of c.beqz / c.bnez / c.j / c.jal - forms the COMPRESSOR chose for a 32-bit source line
                        res.fail('only_with_c:const_target:compressed_form', '%s ... %r assembles without -c; with -c the compressor picks a 16-bit form whose range the final offset '
                                 'exceeds: %s' % (src[:60], src[-30:], str(c[1])[-120:]), {'kind': 'text', 'source': src})
                    elif u[0] == 'ok' and c[0] != 'ok':
                        res.count('jump_to_constant_out_of_reach_in_compressed_layout')   # the instruction as written cannot reach: the known finding's class
                    elif u[0] == 'ok' and u[1] != c[1]:
                        res.nontrivial_count += 1
    res.sample({'constant_target_prefixes': [list(p)[:4] for p in PRES[lo:hi]]})
    return res


DEGENERATE = ['', '\n', '# only a comment\n', 'K = 5\nM = K * 2\n', 'bytes 1 2 3\n', 'string hello\n', 'start:\n', 'start:\nend_:\n', 'dw 7\nalign 8\n', 'align 4\n',
              'K = 1\nlab:\ndb K\n', 'shorts 1 2\nL:\npack <I, L\n', '   \n\t\n', 'R = x5\n', 'include_me:\nstring x\nalign 2\n']


def degenerate_job():
    """Programs without a single instruction (empty, comments, definitions, data, labels only): -c has nothing to do and must change nothing."""
    a = env.load_asm()
    res = env.Result()
    for src in DEGENERATE:
        res.evaluations += 1
        u = progcheck.assemble(a, src, False)
        c = progcheck.assemble(a, src, True)
        if u[0] == 'ok' and (c[0] != 'ok' or c[1] != u[1] or c[2] != u[2]):
            res.fail('only_with_c:no_instructions', 'the instruction-free program %r assembles to %s without -c; with -c: %s' % (
                src, u[1].hex(), c[1].hex() if c[0] == 'ok' else '%s: %s' % (type(c[1]).__name__, str(c[1])[-120:])), {'kind': 'text', 'source': src})
        elif u[0] == 'ok':
            res.nontrivial_count += 1
    return res


def run(tier):
    chk = env.Check(PROP, tier)
    chk.rule = ('Hypothesis IR programs from two profiles (RVC operand-set edges with constants/aliases as operands and shift '
                'amounts and label-dependent immediates; mixed data/align/explicit c.*), assembled without -c; every accepted '
                'one must also be accepted with -c (any exception = violation, bucketed by exception type and innermost '
                'bronzebeard frame). non-trivial = accepted program whose output changes under -c or that has a constant '
                'shift amount or a label-dependent immediate; distinct by source')
    progcheck.run_corpus(chk, PROP, judge)
    for i, prof in enumerate(PROFILES):
        progcheck.run_sharded(chk, PROP + ('' if i == 0 else '#%d' % i), prof, N[tier] // len(PROFILES), 'judge', __name__)
    chk.merge(env.run_shards(const_target_job, [(i, i + 1) for i in range(len(PRES))]))
    chk.merge(env.run_shards(degenerate_job, [()]))
    chk.rule += ('; plus call / tail / j / jal / beqz / bne to a constant address round the +-1 MiB, +-2 KiB, +-256 B edges and round the instruction itself, behind 13 kinds of shrinking code (up to 300 li, aligns up to 4096): '
                 'call / tail must be accepted in both modes (the far form reaches everything)')
    _prog.check_vacuity(chk)
    return chk.finish()


def replay(path):
    import json
    with open(path) as f:
        c = json.load(f)['case']
    if c.get('kind') == 'text':
        a = env.load_asm()
        u, cc = progcheck.assemble(a, c['source'], False), progcheck.assemble(a, c['source'], True)
        if u[0] != 'ok' or cc[0] != 'ok':
            print('VIOLATION property=%s replay=%s' % (PROP, path))
            print('  %r: without -c %s, with -c %s' % (c['source'], u[0], cc[0]))
            return env.EXIT_VIOLATION
        print('replay holds: %s' % path)
        return env.EXIT_OK
    return progcheck.replay_program(path, judge)
