"""C12 - a program that assembles without compression also assembles with it."""
from hypothesis import strategies as st

from vlib import env, progcheck, strategies as S
from checks import _prog

PROP = 'C12'
PROFILES = [
    S.profile(p_compressible=0.8, w_labelval=8, w_li=5, w_calltail=4, w_group=3, p_const_operand=0.35, p_alias=0.25,
              n_consts=(1, 6), w_shift=6, w_imm=8, w_load=5, w_store=5, w_upper=4),
    S.profile(p_compressible=0.6, w_labelval=3, w_data=4, w_align=3, w_cinsn=3, p_const_operand=0.2, n_consts=(0, 4)),
]
N = {'quick': 3200, 'thorough': 400000}


ENCODER_32BIT_MESSAGES = ('12-bit immediate', '12-bit MO2 immediate', '20-bit immediate', '20-bit MO2 immediate')


def layout_dependent_operand(prog, e):
    """True when the -c-only refusal is the KNOWN, inherent case: the refused line has an operand that depends on labels (or is a
    transfer to a label) and it is refused by the range / multiple-of check of the instruction AS WRITTEN - the 32-bit encoder
    of a 32-bit source instruction or pseudo-instruction, or the own encoder of an explicitly written c.* instruction.  The value
    simply is different in the compressed layout (labels move, align padding changes) and no longer representable there.
    A refusal by a c.* encoder that the COMPRESSOR chose for a 32-bit source instruction is something else (a decision taken on
    a value that changed afterwards) and keeps its own signature."""
    ln = getattr(getattr(e, 'line', None), 'number', None)
    msg = getattr(e, 'message', '') or ''
    if ln is None or not (1 <= ln <= len(prog.items)):
        return False
    if not ('must be between' in msg or 'multiple of' in msg or 'muliple of' in msg or 'constraint failed' in msg):
        return False
    it = prog.items[ln - 1]
    vals = list(it.ops.values()) if it.kind == 'insn' else (list(it.ops) if it.kind == 'pseudo' else [])
    dep = any(isinstance(x, str) or getattr(x, 'label_dep', False) for x in vals)
    if not dep:
        return False
    explicit_c = it.kind == 'insn' and it.mn.startswith('c.')
    own_32 = msg.startswith(ENCODER_32BIT_MESSAGES)
    return explicit_c or own_32


def judge(prog, res):
    a = _prog.get_asm()
    src = prog.text()
    res.evaluations += 1
    u = progcheck.assemble(a, src, False)
    for t in prog.tags:
        res.count('gen:' + t)
    if u[0] != 'ok':
        res.count('refused_without_c')
        if prog.expected_ok:
            res.count('expected_ok_refused')
        return
    if prog.expected_ok:
        res.count('expected_ok_assembled')
    c = progcheck.assemble(a, src, True)
    if c[0] != 'ok':
        e = c[1]
        sig = 'only_with_c:%s' % progcheck.exc_sig(e)
        if layout_dependent_operand(prog, e):
            sig = 'only_with_c:layout_dependent_operand'
        line = getattr(getattr(e, 'line', None), 'contents', None)
        raise env.CaseFailure(sig, 'assembles without -c (%d bytes) but with -c: %s: %s%s' % (
            len(u[1]), type(e).__name__, str(e)[-300:], '\n  line: %r' % line if line else ''), progcheck.case_of(prog, True))
    res.count('accepted_both')
    changed = c[1] != u[1]
    if changed or 'const_shamt' in prog.tags or 'labelval' in prog.tags:
        res.nt(env.chash(src))
    if changed:
        res.count('output_changed_by_c')
    if res.evaluations % 101 == 1:
        res.sample({'bytes_without_c': len(u[1]), 'bytes_with_c': len(c[1]), 'source': src[:500]})


def run(tier):
    chk = env.Check(PROP, tier)
    chk.rule = ('Hypothesis IR programs from two profiles (RVC operand-set edges with constants/aliases as operands and shift '
                'amounts and label-dependent immediates; mixed data/align/explicit c.*), assembled without -c; every accepted '
                'one must also be accepted with -c (any exception = violation, bucketed by exception type and innermost '
                'bronzebeard frame). non-trivial = accepted program whose output changes under -c or that has a constant '
                'shift amount or a label-dependent immediate; distinct by source')
    progcheck.run_corpus(chk, PROP, judge)
    for i, prof in enumerate(PROFILES):
        progcheck.run_sharded(chk, PROP + ('' if i == 0 else '#%d' % i), prof, N[tier] // len(PROFILES), 'judge', __name__)
    _prog.check_vacuity(chk)
    return chk.finish()


def replay(path):
    return progcheck.replay_program(path, judge)
