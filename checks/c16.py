"""C16 - assembly is a pure, deterministic function of its inputs (stateful / model-based)."""
import copy
import hashlib
import json
import os
import subprocess
import sys

import hypothesis
from hypothesis import strategies as st
from hypothesis.stateful import RuleBasedStateMachine, initialize, invariant, precondition, rule, run_state_machine_as_test

from vlib import env, ir, progcheck, strategies as S
from checks import c15

PROP = 'C16'
PROFILE = S.profile(n_items=(1, 12), far=False, big_gaps=False, w_group=0, n_consts=(0, 3), n_labels=(1, 4), w_labelval=3, p_const_operand=0.3,
                    p_alias=0.2, w_cinsn=5)
N = {'quick': 192, 'thorough': 20000}
FRESH = os.path.join(env.VERIF, 'tools', 'fresh_assemble.py')
_cache = {}
_stats = None


def fresh(source, compress, labels, consts, include_dirs=None, text=None, cwd=None):
    key = hashlib.sha1(json.dumps([source, text, compress, labels, consts, include_dirs, cwd], sort_keys=True).encode()).hexdigest()
    if key not in _cache:
        hs = str(1 + int(key[:6], 16) % 4000)
        p = subprocess.run([sys.executable, FRESH], input=json.dumps({'source': source, 'compress': compress, 'labels': labels, 'constants': consts,
                                                                      'include_dirs': include_dirs, 'cwd': cwd}).encode(),
                           stdout=subprocess.PIPE, stderr=subprocess.PIPE, env=env.repo_python_env({'PYTHONHASHSEED': hs}), cwd=cwd or env.TMP, timeout=120)
        if p.returncode != 0:
            raise env.HarnessError('fresh interpreter failed: %s' % p.stderr.decode()[-400:])
        _cache[key] = json.loads(p.stdout)
        _stats.count('fresh_interpreters')
    return _cache[key]


_modcount = [0]


def fresh_module():
    import importlib.util
    env.load_asm()
    _modcount[0] += 1
    path = os.path.join(env.REPO, 'bronzebeard', 'asm.py')
    spec = importlib.util.spec_from_file_location('bronzebeard_asm_history_%d' % _modcount[0], path)
    mod = importlib.util.module_from_spec(spec)
    spec.loader.exec_module(mod)
    return mod


def find_case_failure(e, depth=0):
    if isinstance(e, env.CaseFailure):
        return e
    if depth > 6 or e is None:
        return None
    for sub in getattr(e, 'exceptions', ()) or ():
        f = find_case_failure(sub, depth + 1)
        if f:
            return f
    return find_case_failure(e.__cause__, depth + 1) or find_case_failure(e.__context__, depth + 1)


def tables_snapshot(a):
    return (dict(a.REGISTERS), sorted(a.INSTRUCTIONS), sorted(a.KEYWORDS), sorted(a.PSEUDO_INSTRUCTIONS), sorted(a.BASE_OFFSET_INSTRUCTIONS),
            sorted(a.NUMERIC_SEQUENCE_NAMES), sorted(a.SHORTHAND_PACK_NAMES), {k: (v.func.__name__, sorted(v.keywords.items(), key=str)) for k, v in a.INSTRUCTIONS.items() if hasattr(v, 'func')})


def rename_labels(items, mp):
    """Deep copy of IR items with label names replaced according to mp (definitions and every reference)."""
    items = copy.deepcopy(items)

    def fix(v):
        if isinstance(v, (ir.LRef, ir.Pos)) or (isinstance(v, ir.Off) and not isinstance(v, ir.OffC)):
            v.name = mp.get(v.name, v.name)
        for attr in ('a', 'b', 'v', 'base'):
            x = getattr(v, attr, None)
            if isinstance(x, ir.V):
                fix(x)
    for it in items:
        if it.kind == 'label':
            it.name = mp.get(it.name, it.name)
        elif it.kind == 'insn':
            for v in it.ops.values():
                if isinstance(v, ir.V):
                    fix(v)
        elif it.kind == 'pseudo':
            it.ops = [mp.get(v, v) if isinstance(v, str) else v for v in it.ops]
            for v in it.ops:
                if isinstance(v, ir.V):
                    fix(v)
        elif it.kind in ('short', 'pack'):
            fix(it.value)
    return items


ITYPE_LIT = {'addi', 'andi', 'ori', 'xori', 'slti', 'sltiu', 'lw', 'lh', 'lb', 'lhu', 'lbu', 'sw', 'sh', 'sb'}


def literal_twin(items, pick):
    """Deep copy of IR items in which the literal 12-bit immediates of plain I/S-type instructions are replaced by pick(old value)
    (every value of -2048..2047 is legal there, so the copy is as valid as the original)."""
    items = copy.deepcopy(items)
    for it in items:
        if it.kind == 'insn' and it.mn in ITYPE_LIT and type(it.ops.get('imm')) is ir.Lit and -2048 <= it.ops['imm'].value <= 2047:
            it.ops['imm'] = ir.Lit(pick(it.ops['imm'].value))
    return items


@st.composite
def pool(draw):
    n = draw(st.integers(3, 6))
    progs = []
    prev = None
    pending = None
    for i in range(n):
        p = draw(S.programs(PROFILE))
        labs = [it.name for it in (prev.items if prev is not None else []) if it.kind == 'label']
        if pending is not None:
            p, pending = pending, None
        elif i + 1 < n and draw(st.integers(0, 4)) == 0:
            # NEAR TWINS (round 9): this program with the literal immediates of its I/S-type instructions at edge values, and as the
            # next program the same text with each of them one lower - two programs that differ in nothing but neighbouring
            # numbers (state keyed by anything coarser than the operand values would confuse them)
            p = S.Program(literal_twin(p.items, lambda v: draw(st.sampled_from([-1, -1, -1, 0, 1, -2, 2047, 16, v]))), p.tags, p.expected_ok)
            pending = S.Program(literal_twin(p.items, lambda v: v - 1 if v > -2048 else v + 1), p.tags, p.expected_ok)
        elif prev is not None and len(labs) >= 2 and draw(st.integers(0, 2)) == 0:
            # a SIBLING of the previous program: the same items with the label names permuted - the same names then sit at other
            # addresses, in another order (a dictionary filled by one of the two has the "wrong" insertion order for the other)
            perm = draw(st.permutations(labs))
            p = S.Program(rename_labels(prev.items, dict(zip(labs, perm))), prev.tags, prev.expected_ok)
        prev = p
        # registers as xN / ABI alias / plain number, integers in three bases: the same operand TEXT then shows up in different
        # roles in different programs (state keyed by a spelling would leak between calls)
        st_ = ir.Style(draw(st.integers(1, 2 ** 30)), kinds={'reg', 'intbase'}) if draw(st.integers(0, 3)) else ir.Style(0)
        lines = [it.render(st_) for it in p.items]
        if draw(st.integers(0, 3)) == 0:
            faults = [f for f in c15.FAULTS if '{far}' not in f[1] and '{label}' not in f[1] and f[0] not in ('noinclude',)]
            lines.insert(draw(st.integers(0, len(lines))), draw(st.sampled_from(faults))[1])
        if draw(st.integers(0, 2)) == 0 and i > 0:
            # use a label / constant that only ANOTHER program of the pool defines
            other = progs[draw(st.integers(0, i - 1))]
            names = [ln[:-1] for ln in other.splitlines() if ln.endswith(':') and ' ' not in ln]
            if names:
                lines.append('dw ' + names[0])
        if i > 0 and draw(st.integers(0, 2)) == 0:
            # ... or a REGISTER ALIAS that only another program defines (must stay unknown here)
            import re
            other = progs[draw(st.integers(0, i - 1))]
            al = [m.group(1) for m in (re.fullmatch(r'\s*([A-Za-z_]\w*) = (?:x\d+|zero|ra|sp|gp|tp|fp|[ast]\d+)\s*', ln) for ln in other.splitlines()) if m]
            al = [n for n in al if not any(l.strip().startswith(n + ' =') for l in lines)]
            if al:
                lines.append('addi %s, %s, 1' % (al[0], al[0]))
        own_labels = [ln[:-1] for ln in lines if ln.endswith(':') and ' ' not in ln.strip()]
        if own_labels and draw(st.booleans()):
            # the same text as a label-dependent immediate here ...
            lines += ['li x6, %s' % own_labels[0], 'addi x9, x9, %%lo(%s)' % own_labels[0]]
        if i > 0 and draw(st.booleans()):
            # ... and as a CONSTANT of the same name in another program (one program's label is another's constant)
            other = progs[draw(st.integers(0, i - 1))]
            names = [ln[:-1] for ln in other.splitlines() if ln.endswith(':') and ' ' not in ln.strip()]
            names = [n for n in names if n not in own_labels and not any(l.startswith(n + ' =') for l in lines)]
            if names:
                lines = ['%s = %d' % (names[0], draw(st.sampled_from([8, 0, 2047, 40000])))] + lines + ['li x6, %s' % names[0], 'addi x9, x9, %%lo(%s)' % names[0]]
        if draw(st.integers(0, 2)) == 0:
            # shared include file that itself includes a definitions file only reachable through the include directory option
            lines = ['include lib.asm'] + lines + ['li x7, CHIP_BASE']
        if draw(st.integers(0, 2)) == 0:
            # a file of the same name sits next to the programs of BOTH source directories, with different contents
            lines = ['include local.asm'] + lines + ['li x8, LOCAL_K', 'addi x8, x8, LOCAL_K']
        progs.append('\n'.join(lines) + '\n')
    return progs


LIB_ASM = 'LIB_K = 3\ninclude chip.asm\nlib_entry:\naddi x5, x5, LIB_K\n'
CHIP_ASM = 'CHIP_BASE = 0x40021000\nCHIP_IRQ = 19\n'


HOME = os.path.realpath(os.getcwd())    # the working directory of the check itself: every call of a history starts and must end there


class History(RuleBasedStateMachine):
    def __init__(self):
        super().__init__()
        os.chdir(HOME)
        # every history starts from a freshly executed copy of the module, so that state leaking out of one
        # history cannot make the next one irreproducible (the leak itself is caught inside the history)
        self.a = fresh_module()
        self.tables = tables_snapshot(self.a)
        self.pool = []
        self.returned = []    # (labels dict, constants dict, snapshot of both) handed back by earlier calls
        self.reusable = []    # (program, incdirs, labels, constants) of successful fresh-dict calls that nobody scribbled into
        self.ops = []         # everything that was done, in order (this is what a replay re-executes)
        self.outputs = []     # (object returned by an earlier call, its bytes at that time)
        self.calls = []
        self.distinct = set()
        self.fail_before_success = False
        self.seen_failure = False
        self.repeated = False

    @initialize(progs=pool())
    def setup(self, progs):
        self.setup_files(progs)

    def setup_files(self, progs):
        import tempfile
        self.pool = list(progs)
        self.original = list(progs)
        self.dir = tempfile.mkdtemp(prefix='bbv-c16-', dir=env.TMP)
        os.makedirs(os.path.join(self.dir, 'defs'))
        with open(os.path.join(self.dir, 'defs', 'chip.asm'), 'w') as f:
            f.write(CHIP_ASM)
        # two source directories (programs alternate between them); each has its own lib.asm copy and its own local.asm
        for k, sub in enumerate(('src', 'src2')):
            os.makedirs(os.path.join(self.dir, sub))
            with open(os.path.join(self.dir, sub, 'lib.asm'), 'w') as f:
                f.write(LIB_ASM)
            with open(os.path.join(self.dir, sub, 'local.asm'), 'w') as f:
                f.write('LOCAL_K = %d\n' % (5 if k == 0 else 1234))
            # a sub-directory of the same name in both source directories, reached through a RELATIVE include_dirs entry
            os.makedirs(os.path.join(self.dir, sub, 'rel'))
            with open(os.path.join(self.dir, sub, 'rel', 'relk.asm'), 'w') as f:
                f.write('REL_K = %d\n' % (11 if k == 0 else 222))
        self.paths = []
        for i, text in enumerate(progs):
            p = os.path.join(self.dir, ('src', 'src2')[i % 2], 'p%d.asm' % i)
            with open(p, 'w', encoding='utf-8') as f:
                f.write(text)
            self.paths.append(p)
        # ONE include-directory list object, handed to every call that uses the option (the way a build script would)
        self.shared_incdirs = [os.path.join(self.dir, 'defs')]
        self.local_k = [5, 1234]

    def _dict_index(self, d):
        for n, r in enumerate(self.returned):
            if r[0] is d:
                return n
        return None

    def _call(self, i, compress, mode, incdirs=False, reuse_from=None):
        self.ops.append(['call', i % len(self.pool), compress, mode, incdirs, self._dict_index(reuse_from[0]) if reuse_from else None])
        text = self.pool[i % len(self.pool)]
        src = self.paths[i % len(self.pool)]
        include_dirs = self.shared_incdirs if incdirs else None
        ref_dirs = [os.path.join(self.dir, 'defs')] if incdirs else None
        if mode == 'none':
            lin, cin = None, None
        elif mode == 'fresh':
            lin, cin = {}, {}
        elif mode == 'foreign':
            # the LABELS dictionary filled by an earlier call of ANOTHER program (and a fresh constants dictionary), handed to a
            # program that is self-contained (it assembles with empty dictionaries): a left-over label is overwritten when the
            # program defines that label, shadowed when the program has a constant of that name and unused otherwise, so neither
            # the bytes nor the values of the program's own names may change.  (Left-over CONSTANTS are different: a constant
            # shadows a same-named label of the program, so they are legitimate inputs and are not reused across programs.)
            lin, cin = reuse_from[0], {}
        elif mode == 'reuse':
            # the very dictionaries an earlier successful call of the SAME program filled (a build loop that keeps one
            # labels / constants dict): every name in them is defined by the program itself, so the result must be the one
            # obtained with fresh dictionaries
            lin, cin = reuse_from
        else:
            lin, cin = {'test': 0, 'near': 0, 'far': 0x20000000}, {'PRESET': 7}
        if mode in ('reuse', 'foreign'):
            ref = fresh(src, compress, {}, {}, ref_dirs, text + '#local=%r' % (self.local_k,))
        else:
            ref = fresh(src, compress, copy.deepcopy(lin), copy.deepcopy(cin), ref_dirs, text + '#local=%r' % (self.local_k,))
        kw = {'compress': compress}
        if include_dirs is not None:
            kw['include_dirs'] = include_dirs
        if lin is not None:
            kw['labels'] = lin
            kw['constants'] = cin
        try:
            out = self.a.assemble(src, **kw)
            got = {'ok': True, 'bytes': bytes(out).hex(), 'labels': lin, 'constants': cin}
            self.outputs.append((out, bytes(out)))
            self.outputs = self.outputs[-6:]
        except self.a.AssemblerError as e:
            got = {'ok': False, 'type': 'AssemblerError', 'message': e.message, 'line': getattr(e.line, 'number', None)}
        except Exception as e:
            got = {'ok': False, 'type': type(e).__name__, 'message': str(e), 'line': None}
        if mode in ('reuse', 'foreign'):
            for r in self.returned:
                if r[0] is lin or r[1] is cin:
                    r[2], r[3] = copy.deepcopy(r[0]), copy.deepcopy(r[1])   # the caller handed them in again: changes are expected
        key = (i % len(self.pool), compress, mode, incdirs)
        if mode in ('reuse', 'foreign'):
            self.count_reuse = getattr(self, 'count_reuse', 0) + 1
        if key in [c[0] for c in self.calls]:
            self.repeated = True
        self.calls.append((key, got['ok']))
        self.distinct.add(i % len(self.pool))
        if not got['ok']:
            self.seen_failure = True
        elif self.seen_failure:
            self.fail_before_success = True
        if mode == 'foreign' and ref['ok'] and got['ok']:
            got = {'ok': True, 'bytes': got['bytes'], 'labels': {k: v for k, v in got['labels'].items() if k in ref['labels']},
                   'constants': {k: v for k, v in got['constants'].items() if k in ref['constants']}}
        if mode == 'foreign' and not ref['ok']:
            return   # not self-contained: leftovers are legitimate inputs then
        if got != ref:
            hist = [(k, ok) for k, ok in self.calls]
            raise env.CaseFailure('history:%s' % ('result' if got['ok'] and ref['ok'] else 'outcome'),
                                  'call %r after history %r gives\n  %s\nbut a fresh interpreter gives\n  %s\n--- source\n%s' % (
                                      key, hist[:-1][-8:], json.dumps(got)[:400], json.dumps(ref)[:400], text[:500]),
                                  {'kind': 'history', 'pool': self.original, 'ops': self.ops})
        if mode in ('reuse', 'foreign'):
            pass
        elif lin is not None:
            self.returned.append([lin, cin, copy.deepcopy(lin), copy.deepcopy(cin)])
            if mode == 'fresh' and got['ok']:
                self.reusable.append((i % len(self.pool), incdirs, lin, cin))

    @rule(i=st.integers(0, 5), compress=st.booleans(), mode=st.sampled_from(['none', 'fresh', 'preset']), incdirs=st.booleans())
    def assemble(self, i, compress, mode, incdirs):
        self._call(i, compress, mode, incdirs)

    @precondition(lambda self: len(self.calls) > 0)
    @rule(k=st.integers(0, 50))
    def reassemble_earlier(self, k):
        key = self.calls[k % len(self.calls)][0]
        if key[0] == 'text':
            return self.assemble_source_text_from_a_working_directory(key[1], key[2], key[3])
        if key[0] == 'reltext':
            return self.assemble_source_text_with_relative_include_dirs(key[1], key[2])
        if key[2] in ('reuse', 'foreign'):
            key = (key[0], key[1], 'fresh', key[3])
        self._call(*key)

    @precondition(lambda self: len(self.reusable) > 0)
    @rule(k=st.integers(0, 50), compress=st.booleans())
    def assemble_again_with_the_same_dicts(self, k, compress):
        i, incdirs, lin, cin = self.reusable[k % len(self.reusable)]
        self._call(i, compress, 'reuse', incdirs, reuse_from=(lin, cin))

    @precondition(lambda self: len(self.reusable) > 0)
    @rule(k=st.integers(0, 50), i=st.integers(0, 5), compress=st.booleans(), neighbour=st.sampled_from([0, 0, 0, 1, -1]))
    def assemble_with_dicts_left_over_from_another_program(self, k, i, compress, neighbour):
        j, incdirs, lin, cin = self.reusable[k % len(self.reusable)]
        if neighbour:
            i = j + neighbour      # the next / previous program of the pool is often a sibling: same label names, other order
        if i % len(self.pool) == j:
            return
        self.reusable = [x for x in self.reusable if x[2] is not lin]   # they now hold a mixture: no longer 'same program' dicts
        self._call(i, compress, 'foreign', incdirs, reuse_from=(lin, cin))

    @rule(i=st.integers(0, 5), j=st.integers(0, 5))
    def rewrite_a_source_file(self, i, j):
        # the file at path i now holds the text of program j (an edit between two builds in one process)
        i, j = i % len(self.pool), j % len(self.pool)
        if i == j or i % 2 != j % 2:
            return    # keep programs in their own source directory (they may include the directory's local.asm)
        self.ops.append(['rewrite', i, j])
        self.pool[i] = self.original[j]
        with open(self.paths[i], 'w', encoding='utf-8') as f:
            f.write(self.pool[i])
        self.reusable = [x for x in self.reusable if x[0] != i]
        self.rewrites = getattr(self, 'rewrites', 0) + 1

    @rule(where=st.sampled_from(['src', 'src2']), compress=st.booleans())
    def assemble_source_text_with_relative_include_dirs(self, where, compress):
        # include_dirs=['rel'] names src/rel or src2/rel depending on the working directory of the moment
        text = 'include relk.asm\nli x9, REL_K\naddi x9, x9, REL_K\n'
        cwd = os.path.normpath(os.path.join(self.dir, where))
        self.ops.append(['reltext', where, compress])
        ref = fresh(text, compress, {}, {}, ['rel'], 'reltext', cwd=cwd)
        lin, cin = {}, {}
        old = HOME
        os.chdir(cwd)
        try:
            try:
                out = self.a.assemble(text, compress=compress, labels=lin, constants=cin, include_dirs=['rel'])
                got = {'ok': True, 'bytes': bytes(out).hex(), 'labels': lin, 'constants': cin}
            except self.a.AssemblerError as e:
                got = {'ok': False, 'type': 'AssemblerError', 'message': e.message, 'line': getattr(e.line, 'number', None)}
            except Exception as e:
                got = {'ok': False, 'type': type(e).__name__, 'message': str(e), 'line': None}
        finally:
            os.chdir(old)
        self.calls.append((('reltext', where, compress), got['ok']))
        self.text_calls = getattr(self, 'text_calls', 0) + 1
        if got != ref:
            raise env.CaseFailure('history:%s' % ('result' if got['ok'] and ref['ok'] else 'outcome'),
                                  'source TEXT with include_dirs=[\'rel\'] assembled with cwd=%s after history %r gives\n  %s\nbut a fresh interpreter started there gives\n  %s' % (
                                      where, [(k, ok) for k, ok in self.calls][:-1][-8:], json.dumps(got)[:300], json.dumps(ref)[:300]),
                                  {'kind': 'history', 'pool': self.original, 'ops': self.ops})

    @rule(where=st.sampled_from(['src', 'src2', 'defs', '.']), compress=st.booleans(), big=st.booleans())
    def assemble_source_text_from_a_working_directory(self, where, compress, big):
        # a program handed over as TEXT: its include is looked up relative to the working directory of the moment (src and src2
        # hold different local.asm files, the other two places none); the reference is a fresh interpreter started there
        text = 'include local.asm\nli x8, LOCAL_K\naddi x8, x8, LOCAL_K\n' + ('align 65536\ndb 1\n' if big else '')
        cwd = os.path.normpath(os.path.join(self.dir, where))
        self.ops.append(['text', where, compress, big])
        ref = fresh(text, compress, {}, {}, None, 'text#local=%r' % (self.local_k,), cwd=cwd)
        lin, cin = {}, {}
        old = HOME
        os.chdir(cwd)
        try:
            try:
                out = self.a.assemble(text, compress=compress, labels=lin, constants=cin)
                got = {'ok': True, 'bytes': bytes(out).hex(), 'labels': lin, 'constants': cin}
                self.outputs.append((out, bytes(out)))
            except self.a.AssemblerError as e:
                got = {'ok': False, 'type': 'AssemblerError', 'message': e.message, 'line': getattr(e.line, 'number', None)}
            except Exception as e:
                got = {'ok': False, 'type': type(e).__name__, 'message': str(e), 'line': None}
        finally:
            os.chdir(old)
        self.calls.append((('text', where, compress, big), got['ok']))
        self.text_calls = getattr(self, 'text_calls', 0) + 1
        if got != ref:
            raise env.CaseFailure('history:%s' % ('result' if got['ok'] and ref['ok'] else 'outcome'),
                                  'source TEXT assembled with cwd=%s after history %r gives\n  %s\nbut a fresh interpreter started there gives\n  %s' % (
                                      where, [(k, ok) for k, ok in self.calls][:-1][-8:], json.dumps(got)[:300], json.dumps(ref)[:300]),
                                  {'kind': 'history', 'pool': self.original, 'ops': self.ops})

    @invariant()
    def earlier_outputs_untouched(self):
        for obj, snap in self.outputs:
            if bytes(obj) != snap:
                raise env.CaseFailure('history:output_aliasing', 'the object returned by an earlier call (%d bytes) was changed by a later call' % len(snap),
                                      {'kind': 'history', 'pool': self.original, 'ops': self.ops})

    @rule(which=st.integers(0, 1), value=st.sampled_from([5, 7, 1234, 2047, 2048, 40000, None, None]))
    def rewrite_an_included_file(self, which, value):
        # the local.asm of one source directory gets new contents between two builds - or disappears (None) / comes back
        self.ops.append(['rewrite_local', which, value])
        self.set_local(which, value)
        self.rewrites = getattr(self, 'rewrites', 0) + 1

    def set_local(self, which, value):
        self.local_k[which] = value
        p = os.path.join(self.dir, ('src', 'src2')[which], 'local.asm')
        if value is None:
            if os.path.exists(p):
                os.remove(p)
            return
        with open(p, 'w') as f:
            f.write('LOCAL_K = %d\n' % value)

    @precondition(lambda self: len(self.returned) > 0)
    @rule(k=st.integers(0, 50), name=st.sampled_from(S.LABEL_NAMES[:8] + S.CONST_NAMES[:8]), v=st.integers(-5, 5000))
    def scribble(self, k, name, v):
        r = self.returned[k % len(self.returned)]
        self.ops.append(['scribble', k % len(self.returned), name, v])
        self.reusable = [x for x in self.reusable if x[2] is not r[0]]
        r[0][name] = v
        r[1][name] = v + 1
        r[2], r[3] = copy.deepcopy(r[0]), copy.deepcopy(r[1])

    @invariant()
    def earlier_results_untouched(self):
        for lin, cin, ls, cs in self.returned:
            if lin != ls or cin != cs:
                raise env.CaseFailure('history:aliasing', 'a dictionary handed back by an earlier call was changed by a later call: %r -> %r' % (ls, lin),
                                      {'kind': 'history', 'pool': self.original, 'ops': self.ops})

    @invariant()
    def working_directory_unchanged(self):
        # the working directory is an input of every later call (relative paths, includes of a source text): a call that leaves the
        # process somewhere else makes later calls with the same arguments give something else
        try:
            now = os.path.realpath(os.getcwd())
        except OSError:
            now = '<a directory that no longer exists>'
        if now != HOME:
            os.chdir(HOME)
            raise env.CaseFailure('history:cwd', 'a call left the process in another working directory (%s instead of %s)' % (now, HOME),
                                  {'kind': 'history', 'pool': self.original, 'ops': self.ops})

    @invariant()
    def module_tables_unchanged(self):
        if tables_snapshot(self.a) != self.tables:
            raise env.CaseFailure('history:tables', 'module level tables (REGISTERS / INSTRUCTIONS / KEYWORDS ...) changed during the history',
                                  {'kind': 'history', 'pool': self.original, 'ops': self.ops})

    def teardown(self):
        import shutil
        if getattr(self, 'dir', None):
            shutil.rmtree(self.dir, ignore_errors=True)
        if _stats is not None and self.calls:
            _stats.evaluations += 1
            _stats.count('calls', len(self.calls))
            if len(self.distinct) >= 2 and self.fail_before_success and self.repeated:
                _stats.nt(env.chash((self.pool, self.calls)))
            _stats.count('calls_reusing_dicts', getattr(self, 'count_reuse', 0))
            _stats.count('source_file_rewrites', getattr(self, 'rewrites', 0))
            _stats.count('source_text_calls_with_a_working_directory', getattr(self, 'text_calls', 0))
            if len(self.distinct) >= 2 and self.repeated and _stats.evaluations % 5 == 0:
                _stats.sample({'calls': [list(k) + [ok] for k, ok in self.calls[:12]], 'first_program': self.pool[0][:200] if self.pool else None})


def shard(n, s, shrink=False):
    global _stats
    res = env.Result()
    _stats = res
    settings = env.hyp_settings(n, shrink=shrink, stateful_steps=30)
    try:
        run_state_machine_as_test(hypothesis.seed(env.derive(env.seed_value(), PROP, s))(History), settings=settings)
    except env.HarnessError:
        raise
    except BaseException as e:
        f = find_case_failure(e)
        if f is None:
            raise
        res.fail(f.sig, f.what, f.case)
    return res


def cli_hashseed_job(seed):
    """The same files through the command line under 4 hash seeds: identical binary and label file."""
    import random
    res = env.Result()
    rnd = random.Random(seed)
    from hypothesis import given
    progs = []

    @hypothesis.seed(seed)
    @env.hyp_settings(6, shrink=False)
    @given(S.programs(S.profile(n_items=(4, 20), far=False, big_gaps=False, n_labels=(2, 6))))
    def collect(p):
        progs.append(p.text())
    collect()
    cli = [sys.executable, '-c', 'import sys; from bronzebeard.asm import cli_main; sys.exit(cli_main())']
    with env.scratch_dir('bbv-c16-') as d:
        for k, src in enumerate(progs):
            with open(os.path.join(d, 'p.asm'), 'w') as f:
                f.write(src)
            outs = []
            for hs in ('0', '1', '4242', 'random'):
                for fn in ('o.bin', 'o.lab'):
                    if os.path.exists(os.path.join(d, fn)):
                        os.remove(os.path.join(d, fn))
                p = subprocess.run(cli + ['-c', '-o', 'o.bin', '-l', 'o.lab', 'p.asm'], cwd=d, env=env.repo_python_env({'PYTHONHASHSEED': hs}),
                                   stdout=subprocess.PIPE, stderr=subprocess.PIPE, timeout=120)
                res.evaluations += 1
                ob = open(os.path.join(d, 'o.bin'), 'rb').read() if os.path.exists(os.path.join(d, 'o.bin')) else None
                ol = open(os.path.join(d, 'o.lab'), 'rb').read() if os.path.exists(os.path.join(d, 'o.lab')) else None
                outs.append((p.returncode, ob, ol))
            if len(set(outs)) != 1:
                res.fail('hashseed', 'command line results differ between PYTHONHASHSEED values: %r' % [(o[0], o[1][:8] if o[1] else None) for o in outs],
                         {'kind': 'hashseed', 'source': src})
            else:
                res.nt(env.chash(src))
        # the same include name in several searched directories (which one wins is not documented, but it must not depend on the
        # interpreter's hash seed)
        for k in range(2):
            dirs = ['first_%d' % k, 'second_%d' % k, 'third_%d' % k, 'zz_%d' % k, 'a_%d' % k]
            for j, dn in enumerate(dirs):
                os.makedirs(os.path.join(d, dn), exist_ok=True)
                with open(os.path.join(d, dn, 'common.asm'), 'w') as f:
                    f.write('dw 0x%08x\n' % (0x11111111 * (j + 1)))
            with open(os.path.join(d, 'common.asm'), 'w') as f:
                f.write('dw 0x99999999\n')
            with open(os.path.join(d, 'q.asm'), 'w') as f:
                f.write('include common.asm\naddi x1, x1, %d\n' % k)
            outs = []
            argv = sum([['-i', dn] for dn in dirs], [])
            for hs in ('0', '1', '2', '3', '5', '8', '13', '21', '4242', '99991'):
                p = subprocess.run(cli + argv + ['-o', 'q.bin', 'q.asm'], cwd=d, env=env.repo_python_env({'PYTHONHASHSEED': hs}),
                                   stdout=subprocess.PIPE, stderr=subprocess.PIPE, timeout=120)
                res.evaluations += 1
                outs.append((p.returncode, open(os.path.join(d, 'q.bin'), 'rb').read() if os.path.exists(os.path.join(d, 'q.bin')) else None))
            if len(set(outs)) != 1:
                res.fail('hashseed:include', 'with the same include name in several searched directories the result differs between PYTHONHASHSEED values: %r'
                         % sorted(set((o[0], o[1].hex() if o[1] else None) for o in outs)), {'kind': 'hashseed', 'source': 'include common.asm'})
            else:
                res.nt(env.chash(('ambiguous include', k, seed)))
        # an include name that matches no file exactly while two files differ from it only in case: whatever happens (file names are
        # case-sensitive: a refusal) must be the same under every hash seed
        os.makedirs(os.path.join(d, 'cased'), exist_ok=True)
        for nm, v in (('Board.asm', 5), ('BOARD.ASM', 13), ('bOARD.asm', 21)):
            with open(os.path.join(d, 'cased', nm), 'w') as f:
                f.write('addi x10, x0, %d\n' % v)
        with open(os.path.join(d, 'r.asm'), 'w') as f:
            f.write('include board.asm\nnop\n')
        outs = []
        for hs in ('0', '1', '2', '3', '5', '8', '13', '21', '4242', '99991'):
            if os.path.exists(os.path.join(d, 'r.bin')):
                os.remove(os.path.join(d, 'r.bin'))
            p = subprocess.run(cli + ['-i', 'cased', '-o', 'r.bin', 'r.asm'], cwd=d, env=env.repo_python_env({'PYTHONHASHSEED': hs}),
                               stdout=subprocess.PIPE, stderr=subprocess.PIPE, timeout=120)
            res.evaluations += 1
            outs.append((p.returncode, open(os.path.join(d, 'r.bin'), 'rb').read() if os.path.exists(os.path.join(d, 'r.bin')) else None))
        if len(set(outs)) != 1:
            res.fail('hashseed:include_case', 'an include name with several case-variants in a searched directory gives different results under different PYTHONHASHSEED values: %r'
                     % sorted(set((o[0], o[1].hex() if o[1] else None) for o in outs)), {'kind': 'hashseed', 'source': 'include board.asm'})
    return res


def sibling_job(seed, n):
    """Build loop over two variants of one program: B is A with its label names permuted (same names, other addresses, other
    order).  B assembled with the labels dictionary that A's build filled must equal B assembled with an empty one: B defines
    every name in it itself."""
    from hypothesis import given
    res = env.Result()
    progs = []

    @hypothesis.seed(seed)
    @env.hyp_settings(n, shrink=False)
    @given(S.programs(S.profile(n_items=(6, 30), far=False, big_gaps=False, n_labels=(2, 6), p_compressible=0.7)), st.integers(0, 2 ** 30))
    def collect(p, k):
        progs.append((p, k))
    collect()
    a = fresh_module()
    snap0 = tables_snapshot(a)
    refs4 = {}
    import random
    for p, k in progs:
        labs = [it.name for it in p.items if it.kind == 'label']
        if len(labs) < 2:
            continue
        rnd = random.Random(k)
        perm = labs[:]
        rnd.shuffle(perm)
        if perm == labs:
            perm = labs[1:] + labs[:1]
        A = p.text()
        B = ir.render(rename_labels(p.items, dict(zip(labs, perm))))[0]
        for comp in (True, False):
            res.evaluations += 1
            ref_l = {}
            ref = progcheck.assemble(a, B, comp, labels=ref_l, constants={})
            la = {}
            first = progcheck.assemble(a, A, comp, labels=la, constants={})
            if ref[0] != 'ok' or first[0] != 'ok':
                res.count('sibling_refused')
                continue
            got = progcheck.assemble(a, B, comp, labels=la, constants={})
            if got[0] != 'ok' or got[1] != ref[1] or {x: la.get(x) for x in ref_l} != ref_l:
                res.fail('history:sibling', 'program B (program A with its label names permuted) assembled with the labels dictionary left by A gives %s, with an empty '
                         'dictionary %s (compress=%s)\n--- A\n%s--- B\n%s' % (got[1].hex()[:80] if got[0] == 'ok' else got, ref[1].hex()[:80], comp, A[:500], B[:500]),
                         {'kind': 'sibling', 'A': A, 'B': B, 'compress': comp})
            else:
                res.nt(env.chash((A, B, comp)))
            # ... near twins (round 9): A with the literal immediates of its I/S-type instructions at edge values, then the same text with
            # each of them one lower, in ONE module; the second must come out as in a module that never saw the first
            t1 = literal_twin(p.items, lambda v: [-1, 0, 1, -1, 2047, 16, -2][(k + v) % 7])
            T1 = ir.render(t1)[0]
            T2 = ir.render(literal_twin(t1, lambda v: v - 1 if v > -2048 else v + 1))[0]
            if T1 != T2:
                res.evaluations += 1
                m = fresh_module()
                ref3 = progcheck.assemble(fresh_module(), T2, comp, labels={}, constants={})
                progcheck.assemble(m, T1, comp, labels={}, constants={})
                got3 = progcheck.assemble(m, T2, comp, labels={}, constants={})
                if got3[0] != ref3[0] or (ref3[0] == 'ok' and got3[1] != ref3[1]):
                    res.fail('history:near_twin', 'a program assembled after its near twin (same text, literal immediates one higher) gives %s, on its own %s (compress=%s)\n--- first\n%s--- then\n%s' % (
                        got3[1].hex()[:80] if got3[0] == 'ok' else got3, ref3[1].hex()[:80] if ref3[0] == 'ok' else ref3, comp, T1[:500], T2[:500]),
                        {'kind': 'sibling', 'A': T1, 'B': T2, 'compress': comp, 'twin': True})
                else:
                    res.count('near_twins')
            # ... names that only an EARLIER program defined (a register alias and a value constant; A's own constants too) must be as
            # unknown afterwards as in a module that never saw the definitions
            res.evaluations += 1
            progcheck.assemble(a, 'LEFT_REG = s1\nLEFT_VAL = 40\naddi LEFT_REG, LEFT_REG, LEFT_VAL\n', comp, labels={}, constants={})
            probes = ['addi LEFT_REG, LEFT_REG, 1\n', 'addi x5, x5, LEFT_VAL\n', 'mv LEFT_REG, x5\n']
            # ... and spellings an earlier (refused: register names are lower-case) line used in ANOTHER ROLE: as registers there, as constants here
            for ln in ('ADDI T1, T1, 1\n', 'ADD A0, A0, S1\n', 'MV X5, SP\n', 'SLLI ZERO, ZERO, 1\n'):
                progcheck.assemble(a, ln, comp, labels={}, constants={})
            probes += ['T1 = 40\naddi x5, x5, T1\n', 'A0 = 3\nslli x6, x6, A0\n', 'SP = 8\nX5 = 9\naddi x7, x7, SP + X5\n']
            cdefs = [it.name for it in p.items if it.kind == 'const']
            if cdefs:
                nm = cdefs[k % len(cdefs)]
                probes += ['addi %s, %s, 1\n' % (nm, nm), 'addi x5, x5, %s\n' % nm]
            for probe in probes:
                if (probe, comp) not in refs4:     # (what a module that saw nothing makes of the probe: computed once per text)
                    r4 = progcheck.assemble(fresh_module(), probe, comp, labels={}, constants={})
                    refs4[(probe, comp)] = (r4[0], bytes(r4[1]) if r4[0] == 'ok' else None)
                ref4 = refs4[(probe, comp)]
                got4 = progcheck.assemble(a, probe, comp, labels={}, constants={})
                if got4[0] != ref4[0] or (ref4[0] == 'ok' and got4[1] != ref4[1]):
                    res.fail('history:leftover_name', 'the program %r gives %s after a program that defined the name, on its own %s (compress=%s)\n--- earlier program\n%s' % (
                        probe, got4[1].hex() if got4[0] == 'ok' else got4[0], ref4[1].hex() if ref4[0] == 'ok' else ref4[0], comp, A[:500]),
                        {'kind': 'sibling', 'A': A, 'B': probe, 'compress': comp, 'twin': True,
                         'seq': [A, 'LEFT_REG = s1\nLEFT_VAL = 40\naddi LEFT_REG, LEFT_REG, LEFT_VAL\n', 'ADDI T1, T1, 1\n', 'ADD A0, A0, S1\n', 'MV X5, SP\n', 'SLLI ZERO, ZERO, 1\n']})
                    break
            else:
                res.count('leftover_name_probes')
            if tables_snapshot(a) != snap0:
                res.fail('history:tables', 'module-level tables of the assembler changed while assembling (compress=%s)\n%s' % (comp, A[:500]),
                         {'kind': 'sibling', 'A': A, 'B': A, 'compress': comp, 'twin': True, 'tables': True})
                snap0 = tables_snapshot(a)
            # ... and a small unrelated program that uses one of A's label names as a CONSTANT (a constant shadows a left-over
            # label of the same name): with A's labels dictionary it must assemble to what it gives with an empty one
            name = labs[k % len(labs)]
            v = [3, 31, 32, 1000, -5, 0][k % 6]
            D = '%s = %d\naddi x8, x8, %s\nandi x9, x9, %s\naddi x5, x0, %s\nslti x6, x7, %s\n' % (name, v, name, name, name, name)
            res.evaluations += 1
            ref2 = progcheck.assemble(a, D, comp, labels={}, constants={})
            got2 = progcheck.assemble(a, D, comp, labels=dict(la), constants={})
            if ref2[0] == 'ok' and (got2[0] != 'ok' or got2[1] != ref2[1]):
                res.fail('history:leftover_label_vs_constant', 'a program that defines the CONSTANT %s = %d gives %s with an empty labels dictionary and %s with the dictionary left by a '
                         'program that had a LABEL of that name (compress=%s)' % (name, v, ref2[1].hex(), got2[1].hex() if got2[0] == 'ok' else got2[1], comp),
                         {'kind': 'sibling', 'A': A, 'B': D, 'compress': comp})
    return res


def _dispatch(fn, *a):
    return fn(*a)


def run(tier):
    chk = env.Check(PROP, tier)
    per = max(1, N[tier] // env.NPROC)
    jobs = [(shard, per, s, tier == 'thorough') for s in range(env.NPROC)]   # shrinking histories re-runs many subprocesses: thorough only
    jobs += [(cli_hashseed_job, env.derive(chk.seed, PROP, 'cli', i) % (1 << 30)) for i in range({'quick': 4, 'thorough': 64}[tier])]
    jobs += [(sibling_job, env.derive(chk.seed, PROP, 'sib', i) % (1 << 30), {'quick': 40, 'thorough': 1500}[tier]) for i in range(8)]
    chk.merge(env.run_shards(_dispatch, jobs))
    chk.rule = ('Hypothesis RuleBasedStateMachine: a pool of 3-6 generated programs over a shared small name space (some with a planted fault, some '
                'using a name only another program defines); rules: assemble(program, compress, no dicts / fresh dicts / pre-populated dicts), '
                're-assemble an earlier call, assemble the same program again with the very dictionaries an earlier call filled, scribble into dictionaries handed back earlier; <= 30 steps. Every in-history result (bytes, labels, '
                'constants or exception type+message+line) must equal the result of ONE FRESH INTERPRETER per (program, options) started with a '
                'different PYTHONHASHSEED; dictionaries returned earlier are never mutated by later calls; module tables unchanged after every '
                'step; programs handed over as TEXT with an include relative to the working directory of the moment (reference: a fresh interpreter started in that directory), some with a 64 KiB output; objects returned by earlier calls keep their bytes. Plus command-line runs of generated files under 4 hash seeds, and sibling builds (program B = program A with its label names permuted, assembled with the labels dictionary A left behind, must equal B with an empty one). non-trivial = history with >= 2 distinct programs, a '
                'failure before a success and a repeated call; distinct by (pool, calls)')
    return chk.finish()


def replay(path):
    global _stats
    with open(path) as f:
        body = json.load(f)
    c = body['case']
    _stats = env.Result()
    if c['kind'] == 'sibling' and c.get('tables'):
        m = fresh_module()
        snap = tables_snapshot(m)
        for ln in ('ADDI T1, T1, 1\n', 'ADD A0, A0, S1\n', 'MV X5, SP\n', 'SLLI ZERO, ZERO, 1\n', c['A']):
            progcheck.assemble(m, ln, c['compress'], labels={}, constants={})
        if tables_snapshot(m) != snap:
            print('VIOLATION property=%s replay=%s' % (PROP, path))
            return env.EXIT_VIOLATION
        print('replay holds: %s' % path)
        return env.EXIT_OK
    if c['kind'] == 'sibling' and c.get('twin'):
        m = fresh_module()
        ref = progcheck.assemble(fresh_module(), c['B'], c['compress'], labels={}, constants={})
        for src in c.get('seq', [c['A']]):
            progcheck.assemble(m, src, c['compress'], labels={}, constants={})
        got = progcheck.assemble(m, c['B'], c['compress'], labels={}, constants={})
        if got[0] != ref[0] or (ref[0] == 'ok' and got[1] != ref[1]):
            print('VIOLATION property=%s replay=%s' % (PROP, path))
            return env.EXIT_VIOLATION
        print('replay holds: %s' % path)
        return env.EXIT_OK
    if c['kind'] == 'sibling':
        a = fresh_module()
        ref_l, la = {}, {}
        ref = progcheck.assemble(a, c['B'], c['compress'], labels=ref_l, constants={})
        progcheck.assemble(a, c['A'], c['compress'], labels=la, constants={})
        got = progcheck.assemble(a, c['B'], c['compress'], labels=la, constants={})
        if ref[0] == 'ok' and (got[0] != 'ok' or got[1] != ref[1] or {x: la.get(x) for x in ref_l} != ref_l):
            print('VIOLATION property=%s replay=%s' % (PROP, path))
            return env.EXIT_VIOLATION
        print('replay holds: %s' % path)
        return env.EXIT_OK
    if c['kind'] == 'hashseed':
        print('replay of hash-seed cases re-runs the job')
        return run('quick')
    m = History()
    m.setup_files(c['pool'])
    try:
        try:
            for op in c['ops']:
                if op[0] == 'call':
                    _, i, compress, mode, incdirs, di = op
                    rf = (m.returned[di][0], m.returned[di][1]) if di is not None and di < len(m.returned) else None
                    if mode in ('reuse', 'foreign') and rf is None:
                        continue
                    m.ops = []
                    m._call(i, compress, mode, incdirs, reuse_from=rf)
                elif op[0] == 'reltext':
                    m.ops = []
                    m.assemble_source_text_with_relative_include_dirs(op[1], op[2])
                elif op[0] == 'text':
                    m.ops = []
                    m.assemble_source_text_from_a_working_directory(op[1], op[2], op[3])
                elif op[0] == 'rewrite_local':
                    _, which, value = op
                    m.set_local(which, value)
                elif op[0] == 'rewrite':
                    _, i, j = op
                    m.pool[i] = m.original[j]
                    with open(m.paths[i], 'w', encoding='utf-8') as f:
                        f.write(m.pool[i])
                else:
                    _, k, name, v = op
                    r = m.returned[k]
                    r[0][name] = v
                    r[1][name] = v + 1
                    r[2], r[3] = copy.deepcopy(r[0]), copy.deepcopy(r[1])
                m.earlier_results_untouched()
                m.earlier_outputs_untouched()
                m.working_directory_unchanged()
                m.module_tables_unchanged()
        finally:
            import shutil
            shutil.rmtree(m.dir, ignore_errors=True)
    except env.CaseFailure as cf:
        print('VIOLATION property=%s replay=%s' % (PROP, path))
        print('  ' + str(cf.what)[:1200])
        return env.EXIT_VIOLATION
    print('replay holds: %s' % path)
    return env.EXIT_OK
