"""C15 - a faulty source line is reported as an assembler error naming that file and line."""
import json
import os
import re

from hypothesis import strategies as st

from vlib import env, ir, progcheck, strategies as S
from checks import c14

PROP = 'C15'
PROFILE = S.profile(n_items=(2, 18), far=False, big_gaps=False, w_group=0, w_labelval=2, labelval_direct=False, n_consts=(0, 3), n_labels=(1, 4),
                    w_calltail=1, w_data=3, w_align=1, odd_data=False)
N = {'quick': 4000, 'thorough': 240000}

# (class, line text, needs) - texts carry distinctive names/values so that the planted line is unique in the tree
FAULTS = [
    ('range32', 'addi x5, x6, 5000'), ('range32', 'lw x5, 2048(x6)'), ('range32', 'sw x5, -2049(x6)'), ('range32', 'lui x5, 0x100000'),
    ('range32', 'slli x5, x6, 32'), ('range32', 'jalr x1, x5, 2049'), ('range32', 'beq x5, x6, 4097'), ('range32', 'jal x1, 0x100000'),
    ('range32', 'andi x8, x8, -2049'), ('range32', 'csrrwi x5, 32, 0x300'), ('range32', 'fence 16, 1'),
    ('range16', 'c.addi x5, 100'), ('range16', 'c.li x5, 32'), ('range16', 'c.lwsp x5, 256'), ('range16', 'c.addi4spn x8, 1024'),
    ('range16', 'c.addi16sp 24'), ('range16', 'c.lw x8, 3(x9)'), ('range16', 'c.lui x5, 32'), ('range16', 'c.srli x8, 32'),
    ('range16', 'c.beqz x8, 256'), ('range16', 'c.andi x8, 32'), ('range16', 'c.j 2048'), ('range16', 'c.mv x0, x5'), ('range16', 'c.addi x5, 0'),
    # (planted data lines have an even documented size, so that they cannot misalign - and thereby break - later code)
    ('rangedata', 'bytes 300 1'), ('rangedata', 'bytes 1 999'), ('rangedata', 'pack <H -1'), ('rangedata', 'dh 70000'), ('rangedata', 'shorts -32769'),
    ('rangedata', 'dw 0x100000000'), ('rangedata', 'pack >h 40000'), ('rangedata', 'ints 4294967296'), ('rangedata', 'dd -9223372036854775809'),
    ('badreg', 'add x5, x99, x6'), ('badreg', 'addi q7, x5, 1'), ('badreg', 'sw x5, 4(x77)'), ('badreg', 'lw foo9, 0(x5)'),
    ('badreg', 'mv x5, q9'), ('badreg', 'li x99, 5'), ('badreg', 'neg x5, rr3'), ('badreg', 'beqz x44, {label}'), ('badreg', 'jr x32'),
    ('badreg', 'c.add x5, foo7'), ('badreg', 'c.lw x5, 0(x9)'), ('badreg', 'c.mv x40, x5'), ('badreg', 'slli x5, x5, x99'),
    ('badreg', 'sub x8, x8, x33'), ('badreg', 'and s12, x8, x9'), ('badreg', 'xor x8, x8, t7'),
    ('undefined', 'beq x5, x6, nowhere_17'), ('undefined', 'j nowhere_18'), ('undefined', 'li x5, UNDEFINED_19'), ('undefined', 'dw nowhere_20'),
    ('undefined', 'addi x5, x5, %position(nowhere_21, 4)'), ('undefined', 'lui x5, %hi(UNDEFINED_22)'), ('undefined', 'call nowhere_23'),
    ('undefined', 'addi x5, x5, %offset(nowhere_24)'), ('undefined', 'pack <I UNDEFINED_25'), ('undefined', 'c.j %offset(nowhere_26)'),
    ('undefined', 'KDEF_27 = UNDEFINED_27 + 1'), ('undefined', 'bnez x8, nowhere_28'), ('undefined', 'tail nowhere_29'),
    ('malformed', 'addi x5, x5, 1 +'), ('malformed', 'lui x5, %hi('), ('malformed', 'addi x5, x5, %lo('), ('malformed', 'addi x5, x5, (1'),
    ('malformed', 'li x5, 1 << -1'), ('malformed', 'KNEG_35 = 1 >> (4 - 5)'), ('malformed', 'dw [1][2]'), ('malformed', 'dw {}[0]'),
    ('malformed', 'addi x5, x5, 1 // 0'), ('malformed', 'dw 2 ** -1'), ('malformed', 'KBAD_31 = 3 *'), ('malformed', 'KOFF_33 = %offset({label})'), ('malformed', 'KPOS_34 = %position({label}, 4)'), ('malformed', 'dw 1 2 +'), ('malformed', 'addi x5, x5, %offset'), ('malformed', 'li x5, )('),
    ('malformed', 'addi x5, x5'), ('malformed', 'add x5, x6'), ('malformed', 'frobnicate x5, x6'), ('malformed', 'beq x5, x6'),
    ('malformed', 'bytes 1 zz'), ('malformed', 'align four'), ('malformed', 'lw x5'), ('malformed', 'sw x5, x6'),
    ('nonint', 'addi x5, x5, 1/2'), ('nonint', 'KF_41 = 1.5'), ('nonint', 'li x5, 2.0'), ('nonint', 'dw 3/4'), ('nonint', 'bytes 1.5 2'),
    ('nonint', 'KF_42 = 10 / 5'), ('nonint', 'pack <I 1e3'),
    ('duplabel', '{label}:'),
    ('error', 'error planted failure 51'), ('error', '  error something else went wrong'),
    ('noinclude', 'include ""'), ('noinclude', 'include .'), ('noinclude', 'include_bytes .'),
    ('twin', 'bnez x8, TWIN_TARGET_91'), ('twin', 'beq x8, x9, TWIN_TARGET_91'), ('twin', 'c.beqz x8, %offset(TWIN_TARGET_91)'),
    ('noinclude', 'include missing_file_61.asm'), ('noinclude', 'include_bytes missing_blob_62.bin'), ('noinclude', 'include'),
    # (round 10) a register operand written as a constant whose value is no register number (the constant's definition, a valid line, is added to the program)
    ('badreg', 'lw x5, 0(KBIG_72)'), ('badreg', 'addi KBIG_72, x5, 1'), ('badreg', 'mv x5, KBIG_72'), ('badreg', 'sll x5, x5, KBIG_72'),
    # (round 9) the missing name has a directory part that does not exist, or that is a regular file
    ('noinclude', 'include no_such_dir_63/defs.asm'), ('noinclude', 'include_bytes no_such_dir_64/blob.bin'), ('noinclude', 'include main.asm/extra.asm'),
    ('expansion', 'bgt x5, x6, {far}'), ('expansion', 'bleu x5, x6, {far}'), ('expansion', 'beqz x5, {far}'), ('expansion', 'li x99, 0x12345678'),
    ('expansion', 'sgtz x5, x77'), ('expansion', 'not q1, x5'),
    # found by the byte-level fuzzer (section 5 of DESIGN.md, fixes 15-17): a zero alignment, pack formats struct does not know,
    # and an upper-case shorthand directive (valid after the fix: then merely counted as not refused)
    ('range32', 'align 0'), ('malformed', 'pack <P, 5'), ('malformed', 'pack YI, 5'), ('malformed', 'pack \u013d, 5'), ('malformed', 'pack <n 5'),
    # syntax-error branches that no other fault text reached (found by measuring line coverage of asm.py under the quick tier)
    ('malformed', 'fence 1'), ('malformed', 'fence 1, 2, 3'), ('malformed', 'amoadd.w x5, x6'), ('malformed', 'amoadd.w x5, x6, x7, 1'), ('malformed', 'lr.w x5, x6, 1'),
    ('malformed', 'c.ebreak x5'), ('malformed', 'c.nop 1'), ('malformed', 'ecall 1'), ('malformed', 'ret x1'), ('malformed', 'include_bytes'),
    ('badname', 'x5 = 7'), ('badname', 'sp = 4'), ('badname', '12 = 5'), ('badname', '0x10 = 3'),
    ('malformed', 'DW 1 +'), ('nonint', 'DH 1.5'), ('rangedata', 'DD -9223372036854775810'), ('rangedata', 'Dw 0x100000001'),
]


@st.composite
def cases(draw, rot=0):
    prog = draw(S.programs(PROFILE))
    lines = [it.render(ir.Style(0)) for it in prog.items]
    labels = [it.name for it in prog.items if it.kind == 'label']
    cls, text = draw(st.sampled_from(FAULTS[rot:] + FAULTS[:rot]))   # Hypothesis favours the first entries: rotate per shard
    if draw(st.integers(0, 3)) == 0:
        # mutation of a valid instruction line of this very program (operands only: dropped, doubled, swapped, replaced by junk)
        cand = [ln for ln, it in zip(lines, prog.items) if it.kind in ('insn', 'pseudo') and len(ln.split()) >= 2]
        if cand:
            import random
            rnd = random.Random(draw(st.integers(0, 2 ** 32)))
            base = rnd.choice(cand)
            toks = base.replace(',', ' ').split()
            head, ops = toks[0], toks[1:]
            k = rnd.randrange(7)
            junk = ['x99', 'q1', '+', '(', ')', '%hi', '%lo(', '%offset', '99999999999', '1.5', '1 +', "'ab'", '0x', '-', '%position(', 'x1x', '$', '1//0', '""']
            if k == 0 and ops:
                del ops[rnd.randrange(len(ops))]
            elif k == 1 and ops:
                j = rnd.randrange(len(ops))
                ops.insert(j, ops[j])
            elif k == 2 and ops:
                ops[rnd.randrange(len(ops))] = rnd.choice(junk)
            elif k == 3:
                ops.append(rnd.choice(junk))
            elif k == 4 and len(ops) >= 2:
                a, b = rnd.sample(range(len(ops)), 2)
                ops[a], ops[b] = ops[b], ops[a]
            elif k == 5:
                ops = []
            else:
                ops.insert(rnd.randrange(len(ops) + 1), rnd.choice(junk))
            mutated = head + ' ' + ', '.join(ops) + '   # mutated line 4711'
            cls, text = 'mutated', mutated
    needs_far = '{far}' in text
    text = text.replace('{label}', labels[0] if labels else 'nowhere_0')
    if 'KBIG_72' in text:
        lines.insert(0, 'KBIG_72 = 0x20000000')
    if needs_far:
        # a label more than 4 KiB away: branch pseudo-instructions cannot reach it
        text = text.replace('{far}', 'FARAWAY_77')
    # blank / whitespace-only / comment-only lines (a comment may end in a backslash: no continuation lines in this language) anywhere, in particular at the very top of files (they count for the line numbers)
    nblank = draw(st.integers(0, 4))
    for _ in range(nblank):
        lines.insert(draw(st.integers(0, min(len(lines), 3))) if draw(st.booleans()) else draw(st.integers(0, len(lines))), draw(st.sampled_from(['', '   ', '\t', '# note', '# C:\\chips\\gd32\\', '  #\\'])))
    pos = draw(st.integers(0, len(lines)))
    if cls == 'twin':
        # the same text twice: valid right after its target, out of range 5000 bytes later - the LATER line is the faulty one
        lines = ['TWIN_TARGET_91:', text] + lines + ['string ' + 'z' * 5000, text]
    else:
        lines.insert(pos, text)
    if needs_far:
        lines += ['string ' + 'z' * 5000, 'FARAWAY_77:']
    if cls == 'duplabel' and not labels:
        lines.append('nowhere_0:')
    # cut into include files (depth <= 3, unambiguous placements)
    counter = [0]

    def build(ls, depth):
        node = c14.Node()
        i = 0
        while i < len(ls):
            if depth < 3 and draw(st.integers(0, 5 if depth else 3)) == 0:
                j = draw(st.integers(i + 1, len(ls)))
                child = build(ls[i:j], depth + 1)
                counter[0] += 1
                child.name = 'g%d.asm' % counter[0]
                child.place = draw(st.sampled_from(['same', 'sub', 'incdir']))
                child.form = draw(st.integers(0, 3))
                node.entries.append(('inc', child))
                i = j
            else:
                node.entries.append(('line', ls[i]))
                i += 1
        return node

    use_includes = draw(st.booleans())
    root = build(lines, 0 if use_includes else 9)
    return {'root': root, 'fault': text, 'cls': cls, 'compress': draw(st.booleans()), 'cli': draw(st.integers(0, 3)) == 0,
            'main_rel': draw(st.booleans())}


def repaired(text):
    """A valid line of the same kind and (pessimistic) size as the planted one - used to make sure that the REST of the
    program is valid in the layout the planted line creates, i.e. that the planted line is the only fault."""
    import re
    t = text.strip()
    head = t.split()[0].lower() if t.split() else ''
    if head in ('bytes', 'shorts', 'ints', 'longs', 'longlongs'):
        return head + ' ' + ' '.join('1' for _ in t.split()[1:])
    if head in ('db', 'dh', 'dw', 'dd'):
        return head + ' 1'
    if head == 'pack':
        import struct
        fmt = t.split()[1].rstrip(',')
        try:
            struct.calcsize(fmt)
        except Exception:
            fmt = '<I'
        return 'pack ' + fmt + ' 1'
    if head == 'align':
        return 'align 4'
    if head in ('error', 'include', 'include_bytes') or t.endswith(':'):
        return '# (removed)'
    if len(t.split()) >= 2 and t.split()[1] == '=':
        if not ir.name_ok(t.split()[0]):
            return '# (removed)'       # the NAME is the fault
        return t.split()[0] + ' = 1'
    if head.startswith('c.'):
        return 'c.nop'
    if head == 'li':
        return 'li x5, 0x12345'
    if head in ('call', 'tail'):
        return 'li x5, 0x12345'
    return 'addi x5, x6, 1'


def count_line(node, text):
    return sum((e[1] == text) if e[0] == 'line' else count_line(e[1], text) if e[0] == 'inc' else 0 for e in node.entries)


def replace_line(node, old, new, only_last=False, _state=None):
    """Copy of the tree with the planted line replaced.  only_last (twin faults: the same text twice, the LATER one is the fault):
    only the last occurrence in splice order is replaced, so that the earlier, valid one keeps its size and the layout stays the
    one the faulty program has."""
    if _state is None:
        _state = [count_line(node, old) if only_last else 0]
    n = c14.Node()
    n.name, n.place, n.form, n.alt_lines = node.name, node.place, node.form, node.alt_lines
    for e in node.entries:
        if e[0] == 'line':
            hit = e[1] == old
            if hit and only_last:
                _state[0] -= 1
                hit = _state[0] == 0
            n.entries.append(('line', new if hit else e[1]))
        elif e[0] == 'bin':
            n.entries.append(e)
        elif e[0] == 'again':
            continue
        else:
            n.entries.append(('inc', replace_line(e[1], old, new, only_last, _state)))
    return n


def _is_later_twin(root, node, text, hit, srcdir):
    """True when `hit` (path, line) is the LAST occurrence of text in splice order: found by assembling the positions of all lines
    through the include tree as written on disk."""
    seq = []

    def visit(path, inc_dirs):
        with open(path, encoding='utf-8') as f:
            for i, line in enumerate(f.read().splitlines(), start=1):
                if line.lower().startswith('include '):
                    import re
                    rel = re.sub(r'#.*$', '', line).split()[1].strip('"\'')
                    for d in inc_dirs + [os.path.dirname(path)]:
                        cand = os.path.join(d, rel)
                        if os.path.isfile(cand):
                            visit(cand, inc_dirs)
                            break
                elif line == text:
                    seq.append((os.path.realpath(path), i))
    visit(os.path.join(srcdir, 'main.asm'), [os.path.join(root, 'inc1'), os.path.join(root, 'inc2')])
    return bool(seq) and (os.path.realpath(hit[0]), hit[1]) == seq[-1]


def locate(rootdir, text):
    hits = []
    seen = set()
    for d, _, files in os.walk(rootdir):
        for fn in files:
            if not fn.lower().endswith('.asm'):
                continue
            p = os.path.join(d, fn)
            if os.path.realpath(p) in seen:     # (an include file may be a symbolic link into the store directory: one file, two names)
                continue
            seen.add(os.path.realpath(p))
            with open(p, encoding='utf-8') as f:
                for i, line in enumerate(f.read().splitlines(), start=1):
                    if line == text:
                        hits.append((p, i))
    return hits


def judge(case, res):
    a = env.load_asm()
    res.evaluations += 1
    comp = case['compress']
    with env.scratch_dir('bbv-c15-') as root:
        # (a brace in a directory name is nothing special - unless a message is built with str.format twice)
        pdir = ['p', 'p', 'fw-{board}', 'build-{0}', 'odd}name'][env.chash(case['fault'])[1] % 5]
        srcdir = os.path.join(root, pdir, 'src')
        os.makedirs(srcdir)
        os.makedirs(os.path.join(root, 'inc1'))
        os.makedirs(os.path.join(root, 'inc2'))
        stats = {'depth': 0, 'incdir': False, 'ambiguous': False, 'names': []}
        main_text = c14.write_tree(case['root'], srcdir, root, set(), stats)
        main = os.path.join(srcdir, 'main.asm')
        with open(main, 'w', encoding='utf-8') as f:
            f.write(main_text)
        hits = locate(root, case['fault'])
        if case['cls'] == 'noinclude' and 'missing_' in case['fault'] and env.chash(case['fault'] + main_text)[0] % 2:
            # the missing name is present as a DANGLING symbolic link (a checkout without its submodule, a removed build
            # product): next to the including file and in a searched directory - still a missing include file
            miss = case['fault'].split()[-1]
            for d in {os.path.dirname(h[0]) for h in hits} | {os.path.join(root, 'inc1')}:
                if not os.path.lexists(os.path.join(d, miss)):
                    os.symlink(os.path.join(root, 'gone', 'nowhere-' + miss), os.path.join(d, miss))
            res.count('missing_include_is_a_dangling_symlink')
        if case['cls'] == 'duplabel':
            ok_sites = hits
        elif case['cls'] == 'twin':
            if len(hits) != 2:
                raise env.HarnessError('twin line %r found %d times' % (case['fault'], len(hits)))
            # the faulty one is the occurrence that comes later in the spliced program
            flat = c14.flatten(case['root'])
            last_is_second = True
            ok_sites = [hits[-1]] if hits[-1][0] != hits[0][0] or hits[-1][1] > hits[0][1] else [hits[0]]
            # (locate() walks files in os.walk order: decide by the text order of the splice instead)
            order = []
            def walk_files(node, path):
                n = 0
                for e in node.entries:
                    pass
            ok_sites = [h for h in hits if _is_later_twin(root, case['root'], case['fault'], h, srcdir)] or [hits[-1]]
        else:
            if len(hits) != 1:
                raise env.HarnessError('planted line %r found %d times' % (case['fault'], len(hits)))
            ok_sites = hits
        inc = [os.path.join(root, 'inc1'), os.path.join(root, 'inc2')]
        # a program without includes is handed over as source TEXT half of the time, with LF, CR LF or CR-only line ends
        # (str.splitlines and open() agree on all three); its lines are then lines of "<string>"
        as_text = stats['depth'] == 0 and not stats.get('bins') and env.chash(main_text)[1] % 2 == 0 and case['cls'] not in ('noinclude',)
        eol = ['\n', '\r\n', '\r'][env.chash(main_text)[2] % 3]
        with env.cwd(root):
            path = os.path.relpath(main, root) if case['main_rel'] else main
            exc = None
            try:
                if as_text:
                    res.count('source_text:' + {'\n': 'LF', '\r\n': 'CRLF', '\r': 'CR'}[eol])
                    a.assemble(main_text.replace('\n', eol), compress=comp, include_dirs=inc)
                else:
                    a.assemble(path, compress=comp, include_dirs=inc)
            except BaseException as e:
                exc = e
            cli = None
            if case['cli'] and not as_text:
                import sys
                old = sys.argv
                sys.argv = ['bronzebeard'] + (['-c'] if comp else []) + ['-i', inc[0], '-i', inc[1], '-o', os.path.join(root, 'o.bin'), path]
                try:
                    with env.quiet_stdio() as (o, e):
                        try:
                            a.cli_main()
                            cli = ('exit', 0, '')
                        except SystemExit as ex:
                            try:
                                msg = '' if isinstance(ex.code, int) or ex.code is None else str(ex.code)
                                cli = ('exit', ex.code if isinstance(ex.code, int) else (0 if ex.code is None else 1), msg)
                            except Exception as ex2:
                                cli = ('raised', type(ex2).__name__, 'the message of the error cannot be built: %s' % ex2)
                        except BaseException as ex:
                            cli = ('raised', type(ex).__name__, str(ex))
                finally:
                    sys.argv = old
            sites = [(os.path.realpath(p), n) for p, n in ok_sites]
            sig_tail = '%s:%s' % (case['cls'], 'c' if comp else 'u')
            payload = {'kind': 'fault', 'tree': c14._dump(case['root']), 'fault': case['fault'], 'cls': case['cls'], 'compress': comp,
                       'cli': case['cli'], 'main_rel': case['main_rel']}
            if exc is None:
                res.count('not_refused:' + case['cls'])
                return
            # the planted line must be the ONLY fault: the same tree with a valid line of the same kind and size in its
            # place has to assemble (a planted line can push a later, label-dependent operand out of range, for example)
            if case['cls'] != 'duplabel':
                fixed_root = os.path.join(root, 'repaired')
                fsrc = os.path.join(fixed_root, 'p', 'src')
                os.makedirs(fsrc)
                ftext = c14.write_tree(replace_line(case['root'], case['fault'], repaired(case['fault']), only_last=(case['cls'] == 'twin')), fsrc, fixed_root, set(),
                                       {'depth': 0, 'incdir': False, 'ambiguous': False, 'names': []})
                with open(os.path.join(fsrc, 'main.asm'), 'w', encoding='utf-8') as f:
                    f.write(ftext)
                ok = progcheck.assemble(a, os.path.join(fsrc, 'main.asm'), comp, include_dirs=[os.path.join(fixed_root, 'inc1'), os.path.join(fixed_root, 'inc2')])
                if ok[0] != 'ok':
                    res.count('rest_of_program_invalid')
                    return
            if case['cls'] == 'mutated':
                # a mutation can leave a VALID line behind (`jal x31, FO` -> `jal FO`): then the refusal is the business of some other,
                # layout-dependent line that the stand-in (of another size under -c) hides from the pre-check above.  The planted
                # line counts as a fault only if it is refused on its own, next to the program's label and constant definitions.
                defs = [ln for ln in c14.flatten(case['root']) if ln != case['fault'] and (re.fullmatch(r'\s*[^\s#]+:\s*', ln) or re.fullmatch(r'\s*[A-Za-z_]\w* = .*', ln))]
                alone = '\n'.join(defs + [case['fault']]) + '\n'
                if all(progcheck.assemble(a, alone, cm)[0] == 'ok' for cm in (False, True)):
                    res.count('mutated_line_is_valid')
                    return
            res.count('refused:' + case['cls'])
            if not isinstance(exc, a.AssemblerError):
                raise env.CaseFailure('raw:%s:%s' % (progcheck.exc_sig(exc), sig_tail),
                                      'planted %r (%s, compress=%s): the failure is %s: %s, not the assembler\'s own error' % (
                                          case['fault'], case['cls'], comp, type(exc).__name__, str(exc)[-200:]), payload)
            try:
                str(exc)
            except Exception as e2:
                raise env.CaseFailure('raw:str:%s:%s' % (type(e2).__name__, sig_tail), 'the error for planted %r cannot be turned into its message: str(e) raises %s: %s (file %r)' % (
                    case['fault'], type(e2).__name__, e2, getattr(getattr(exc, 'line', None), 'file', None)), payload)
            ln = getattr(exc, 'line', None)
            where = (os.path.realpath(ln.file), ln.number) if ln is not None and isinstance(getattr(ln, 'file', None), str) else None
            if as_text:
                where = (getattr(ln, 'file', None), getattr(ln, 'number', None)) if ln is not None else None
                sites = [('<string>', n) for _, n in ok_sites]
            if case['cls'] == 'duplabel' and where not in sites:
                # the assembler does not refuse duplicate labels as such; a refusal elsewhere is a side effect of the label's new
                # place (an operand pushed out of range) and says nothing about the planted line
                res.count('duplabel_side_effect')
                return
            if where not in sites:
                raise env.CaseFailure('where:%s' % sig_tail, 'planted %r at %r but the error names %r (%s)' % (
                    case['fault'], sites, where, exc.message if hasattr(exc, 'message') else exc), payload)
            if cli is not None:
                if cli[0] == 'raised':
                    raise env.CaseFailure('cli:raw:%s' % sig_tail, 'command line run raises %s: %s' % (cli[1], cli[2][-200:]), payload)
                m = re.search(r'File "([^"]+)", line (\d+)', cli[2])
                cw = (os.path.realpath(m.group(1)), int(m.group(2))) if m else None
                if cli[1] != 1 or cw not in sites or 'Traceback' in cli[2]:
                    raise env.CaseFailure('cli:where:%s' % sig_tail, 'command line run: exit %r, message %r; planted at %r' % (cli[1], cli[2][-300:], sites), payload)
                res.count('cli_runs')
    res.nt(env.chash((case['fault'], main_text, c14._dump(case['root']), comp)))
    res.count('depth:%d' % stats['depth'])
    if res.evaluations % 211 == 1:
        res.sample({'fault': case['fault'], 'class': case['cls'], 'compress': comp, 'include_depth': stats['depth'], 'main.asm': main_text[:300]})


def shard(n, s, shrink=False):
    res = env.Result()
    env.run_hypothesis(judge, cases((s * 7) % len(FAULTS)), n, env.derive(env.seed_value(), PROP, s), res, env.load_known(), PROP, shrink=shrink, max_rounds=30)
    return res


# ---------------------------------------------------------------------------------------------------------------------
# coverage-guided byte-level fuzzing (atheris / libFuzzer in the tooling interpreter); candidates are re-judged here

FUZZ_RUNS = {'quick': 80000, 'thorough': 3000000}
# `align 99999999999999999999`: no output can exist; which error says so is the platform's business.  IntStrLimit = the interpreter's
# guard against converting integers of more than 4300 digits to text (`dd 1 << 393932`; sys.set_int_max_str_digits): same class
RESOURCE = ('MemoryError', 'OverflowError', 'RecursionError', 'IntStrLimit')
FUZZ_SEEDS = ['addi x1, x2, 3\n', 'K = 5\nL:\nli t0, %hi(L + K)\nbeq x1 x2 L\n', 'pack <I, 5\nstring "hi"\nbytes 1 2 3\nalign 4\nlw x1, 4(x2)\nc.addi x8, 1\n',
              "R = x8\nshorts 1 -2\ndw 'a'\nlui a0, %hi(0x20000000)\ncall L\nL:\nret\n", 'dd 1 << 40\nlonglongs 7\nfence iorw, iorw\namoadd.w x1, x2, x3, 1, 0\ncsrrw x1, 0x300, x2\n']


def fuzz_interpreter():
    import shutil
    import subprocess
    for cand in (shutil.which('python3-vt'), '/opt/veriftools/pyvenv/bin/python'):
        if cand and os.path.exists(cand):
            p = subprocess.run([cand, '-c', 'import atheris'], stdout=subprocess.PIPE, stderr=subprocess.PIPE)
            if p.returncode == 0:
                return cand
    return None


def raw_key(a, source, compress):
    """None when the text is assembled or refused with the assembler's own error naming a line of the text; else (type, function)."""
    import traceback
    try:
        with env.quiet_stdio():
            a.assemble(source, compress=compress)
        return None
    except a.AssemblerError as e:
        n = getattr(getattr(e, 'line', None), 'number', None)
        return None if (n is not None and 1 <= n <= (len(source.splitlines()) or 1)) else ('AssemblerError', 'line-out-of-text')
    except BaseException as e:
        tb = traceback.extract_tb(e.__traceback__)
        if isinstance(e, ValueError) and 'integer string conversion' in str(e):
            return ('IntStrLimit', tb[-1].name if tb else '?')
        return (type(e).__name__, tb[-1].name if tb else '?')


def minimise_text(a, source, compress, key):
    lines = source.split('\n')
    changed = True
    while changed and len(lines) > 1:
        changed = False
        for i in range(len(lines) - 1, -1, -1):
            cand = lines[:i] + lines[i + 1:]
            if cand and raw_key(a, '\n'.join(cand), compress) == key:
                lines, changed = cand, True
    text = '\n'.join(lines)
    # then single characters, greedily, a bounded number of sweeps
    for _ in range(3):
        i, changed = 0, False
        while i < len(text) and len(text) > 1:
            cand = text[:i] + text[i + 1:]
            if raw_key(a, cand, compress) == key:
                text, changed = cand, True
            else:
                i += 1
        if not changed:
            break
    return text


def fuzz_job(interp, seed, runs):
    import subprocess
    a = env.load_asm()
    res = env.Result()
    here = os.path.dirname(os.path.dirname(os.path.abspath(__file__)))
    with env.scratch_dir('bbv-c15fz-') as d:
        corpus = os.path.join(d, 'corpus')
        os.makedirs(corpus)
        for i, t in enumerate(FUZZ_SEEDS + [f[1] + '\n' for f in FAULTS if '{' not in f[1] and 'include' not in f[1]][seed % 7::7]):
            with open(os.path.join(corpus, 's%d' % i), 'wb') as f:
                f.write(bytes([i & 1]) + t.encode('utf-8'))
        words = sorted(set(a.INSTRUCTIONS) | set(a.KEYWORDS) | set(a.PSEUDO_INSTRUCTIONS) | {'%hi', '%lo', '%offset', '%position', 'zero', 'sp', 'a0', 's1', 't6', '0x', '0b'})
        with open(os.path.join(d, 'dict'), 'w') as f:
            f.write(''.join('"%s"\n' % w for w in words if w.isascii() and '"' not in w and '\\' not in w))
        out, stats = os.path.join(d, 'findings.jsonl'), os.path.join(d, 'stats.json')
        e = dict(os.environ, PYTHONPATH=env.REPO, FUZZ_OUT=out, FUZZ_STATS=stats, PYTHONHASHSEED='0', PYTHONDONTWRITEBYTECODE='1')
        p = subprocess.run([interp, os.path.join(here, 'tools', 'fuzz_text.py'), corpus, '-runs=%d' % runs, '-seed=%d' % (1 + seed % (2 ** 31 - 2)), '-max_len=200',
                            '-dict=' + os.path.join(d, 'dict'), '-print_final_stats=0', '-verbosity=0'],
                           cwd=d, env=e, stdout=subprocess.PIPE, stderr=subprocess.PIPE, timeout=7200, preexec_fn=env.unlimit_memory)
        if not os.path.exists(stats):
            raise env.HarnessError('fuzz child produced no statistics: rc=%d %s' % (p.returncode, p.stderr.decode('utf-8', 'replace')[-400:]))
        with open(stats) as f:
            st_ = json.load(f)
        if os.path.realpath(st_['asm_file']) != os.path.realpath(os.path.join(env.REPO, 'bronzebeard', 'asm.py')):
            raise env.HarnessError('fuzz child imported %s' % st_['asm_file'])
        res.evaluations = st_['execs']
        res.nontrivial_count = st_['refused']      # texts that reached the assembler and were refused: each one exercised the error path
        res.count('fuzz_execs', st_['execs'])
        res.count('fuzz_texts_assembled', st_['assembled'])
        res.count('fuzz_texts_refused', st_['refused'])
        cands = []
        if os.path.exists(out):
            with open(out) as f:
                cands = [json.loads(ln) for ln in f if ln.strip()]
        for c in cands:
            key = raw_key(a, c['source'], c['compress'])
            if key is None:
                res.count('fuzz_candidate_not_confirmed')    # differs between the two interpreters: not this property's business
                continue
            if key[0] in RESOURCE:
                res.count('fuzz_resource_limit_excluded')
                continue
            text = minimise_text(a, c['source'], c['compress'], key)
            res.fail('fuzz:raw:%s@%s' % key, 'source text %r (compress=%s) ends in %s raised in %s() instead of the assembler\'s own error naming a line of the text' % (
                text[:300], c['compress'], key[0], key[1]), {'kind': 'text', 'source': text, 'compress': c['compress']})
        res.sample({'fuzz_seed': seed, 'execs': st_['execs'], 'texts_assembled': st_['assembled'], 'texts_refused': st_['refused'], 'candidates': len(cands)})
    return res


def run(tier):
    chk = env.Check(PROP, tier)
    chk.rule = ('Hypothesis: a valid generated program (optionally cut into include files, depth <= 3) + exactly one planted faulty line '
                'out of %d fault texts in 10 classes (range32, range16, rangedata, badreg, undefined, malformed, nonint, duplabel, '
                'error, noinclude, expansion) at a drawn line position, compression off/on, API (and 1 in 4 also the command line). '
                'If the program is refused the exception must be AssemblerError carrying the realpath and 1-based number of the '
                'planted line; CLI: exit status 1, File "<path>", line N, no traceback. A fault the assembler does not refuse is '
                'counted (premise false). non-trivial = every refused planted fault; distinct by (fault, tree, mode)' % len(FAULTS))
    per = max(1, N[tier] // env.NPROC)
    chk.merge(env.run_shards(shard, [(per, s, tier == 'thorough') for s in range(env.NPROC)]))   # shrinking file trees is slow: thorough only
    planted = chk.res.evaluations
    interp = fuzz_interpreter()
    if interp is None:
        chk.extra['fuzz'] = 'skipped: no interpreter with atheris found (python3-vt)'
    else:
        chk.merge(env.run_shards(fuzz_job, [(interp, env.derive(chk.seed, PROP, 'fuzz', s), FUZZ_RUNS[tier]) for s in range(8 if tier == 'quick' else env.NPROC)]))
        chk.extra['fuzz'] = '%d libFuzzer executions in %d processes' % (chk.res.evaluations - planted, 8 if tier == 'quick' else env.NPROC)
        chk.rule += ('; PLUS coverage-guided byte-level fuzzing (atheris, %d processes x %d runs, dictionary of all mnemonics and keywords, seeds = small valid '
                     'programs and fault texts): every text (no include lines) is assembled or refused with AssemblerError naming a line inside the text; any other '
                     'exception is re-run in the repository interpreter, minimised (lines, then characters) and reported; resource-limit errors from absurd '
                     'alignments are excluded and counted' % (8 if tier == 'quick' else env.NPROC, FUZZ_RUNS[tier]))
    chk.extra['planted_fault_cases'] = planted
    return chk.finish()


def replay(path):
    with open(path) as f:
        body = json.load(f)
    c = body['case']
    if c.get('kind') == 'text':
        key = raw_key(env.load_asm(), c['source'], c['compress'])
        if key is not None and key[0] not in RESOURCE:
            print('VIOLATION property=%s replay=%s' % (PROP, path))
            print('  %r ends in %s raised in %s()' % (c['source'][:300], key[0], key[1]))
            return env.EXIT_VIOLATION
        print('replay holds: %s' % path)
        return env.EXIT_OK
    case = {'root': c14._load(c['tree']), 'fault': c['fault'], 'cls': c['cls'], 'compress': c['compress'], 'cli': c['cli'], 'main_rel': c['main_rel']}
    try:
        judge(case, env.Result())
    except env.CaseFailure as cf:
        print('VIOLATION property=%s replay=%s' % (PROP, path))
        print('  ' + str(cf.what)[:1200])
        return env.EXIT_VIOLATION
    print('replay holds: %s' % path)
    return env.EXIT_OK
