"""C07 - %hi / %lo always split a value so that the consuming pair rebuilds it.

(a) asm.relocate_hi / asm.relocate_lo over values: quick = low 13 bits complete x structured upper
    parts (both the unsigned and the negative spelling); thorough = ALL of [-2^31, 2^32).
(b) through the text front end: lui+addi, lui+lw/sw, auipc+addi/jalr pairs written with %hi/%lo of the
    same expression (literal, constant, label, %position), decoded and executed by rvref.
"""
import json

from vlib import env, rvref

PROP = 'C07'
M = 0xffffffff


def _check_value(rh, rl, v):
    hi, lo = rh(v), rl(v)
    if type(hi) is not int or type(lo) is not int:
        return 'non-integer result hi=%r lo=%r' % (hi, lo)
    if not -524288 <= hi < 524288:
        return 'hi=%d does not fit the 20-bit upper immediate' % hi
    if not -2048 <= lo < 2048:
        return 'lo=%d does not fit the signed 12-bit immediate' % lo
    if ((hi << 12) + lo - v) & M:
        return '(hi<<12)+lo = 0x%x differs from v mod 2^32' % (((hi << 12) + lo) & M)
    return None


def upper_parts():
    """Structured 19/20-bit upper parts: all one- and two-bit patterns, carry chains, edges."""
    ups = set([0, 1, 2, 0x7fffe, 0x7ffff, 0x80000, 0x80001, 0xffffe, 0xfffff, 0x3ffff, 0x40000, 0xaaaaa, 0x55555])
    for i in range(20):
        ups.add(1 << i)
        ups.add((1 << i) - 1)
        ups.add(0xfffff ^ (1 << i))
        ups.add(0xfffff & ~((1 << i) - 1))
        for j in range(i):
            ups.add((1 << i) | (1 << j))
    return sorted(ups)


def _shard_values(kind, a, b, drawn):
    """kind 'range': every v in [a, b).  kind 'upper': uppers[a:b] x all 2^13 low parts, both spellings."""
    asm = env.load_asm()
    rh, rl = asm.relocate_hi, asm.relocate_lo
    res = env.Result()
    nt = 0
    n = 0
    if kind == 'range':
        for v in range(a, b):
            hi, lo = rh(v), rl(v)
            if not (-524288 <= hi < 524288 and -2048 <= lo < 2048 and ((hi << 12) + lo - v) & M == 0):
                res.fail('value:' + (_check_value(rh, rl, v) or '?').split(' ')[0], _check_value(rh, rl, v),
                         {'kind': 'value', 'v': v})
                if len(res.failures) > 8:
                    break
        n = b - a
        # non-trivial: bit 11 set (carry into the upper part) or upper part on a wrap edge
        lo_a, lo_b = a, b
        # count of v in [a,b) with bit 11 set: exact arithmetic
        def cnt(x):  # number of v in [0,x) with bit 11 set (x may be negative: use floor semantics)
            q, r = divmod(x, 4096)
            return q * 2048 + max(0, r - 2048)
        nt = cnt(lo_b) - cnt(lo_a)
        res.sample({'range': [a, b]})
    else:
        ups = drawn[a:b]
        for up in ups:
            base = up << 12
            for low in range(8192):
                for v in (base + low, base + low - (1 << 32)):
                    if v < -(1 << 31):
                        continue
                    n += 1
                    hi, lo = rh(v), rl(v)
                    if not (-524288 <= hi < 524288 and -2048 <= lo < 2048 and ((hi << 12) + lo - v) & M == 0):
                        why = _check_value(rh, rl, v)
                        res.fail('value:' + why.split(' ')[0], why, {'kind': 'value', 'v': v})
                    elif (v & 0x800) or up in (0x7ffff, 0x80000, 0xfffff):
                        nt += 1
        if ups:
            res.sample({'upper': hex(ups[0]), 'low': 'all 8192 low parts', 'spellings': 'unsigned and -2^32'})
    res.evaluations = n
    res.nontrivial_count = nt
    return res


def run(tier):
    chk = env.Check(PROP, tier)
    asm = env.load_asm()
    try:
        rvref.selftest()
    except AssertionError as e:
        raise env.HarnessError('rvref self test failed: %r' % (e,))
    jobs = []
    if tier == 'thorough':
        lo, hi = -(1 << 31), 1 << 32
        step = 1 << 24
        jobs = [('range', a, min(a + step, hi), None) for a in range(lo, hi, step)]
        chk.exhaustive = True
        chk.rule = ('(a) every integer v in [-2^31, 2^32) through relocate_hi/relocate_lo (complete); '
                    'non-trivial = bit 11 of v set (carry into the upper part), counted exactly; '
                    '(b) generated programs with %hi/%lo pairs, non-trivial = pair whose value has bit 11 set or an '
                    'upper part of 0x7ffff/0x80000/0xfffff, distinct by (kind, expression, value)')
    else:
        ups = upper_parts()
        # plus drawn uppers, a pure function of the seed
        extra = sorted({env.derive(chk.seed, PROP, 'up', i) & 0xfffff for i in range(160)} - set(ups))
        ups = ups + extra
        per = max(1, (len(ups) + env.NPROC * 2 - 1) // (env.NPROC * 2))
        jobs = [('upper', a, min(a + per, len(ups)), ups) for a in range(0, len(ups), per)]
        chk.exhaustive = False
        chk.rule = ('(a) low 13 bits complete x %d structured/drawn upper parts, unsigned and negative spelling; '
                    'non-trivial = bit 11 set or upper part in {0x7ffff,0x80000,0xfffff}; '
                    '(b) generated programs with %%hi/%%lo pairs, non-trivial = pair whose value has bit 11 set or an '
                    'upper part of 0x7ffff/0x80000/0xfffff, distinct by (kind, expression, value)' % len(ups))
    chk.merge(env.run_shards(_shard_values, jobs))
    chk.extra['values_checked'] = chk.res.evaluations
    # (b) text front end
    from checks import c07_pairs
    c07_pairs.run_into(chk, tier)
    c = chk.res.classes
    if c.get('refused_other', 0) * 4 > c.get('pairs', 0) + 4:
        raise env.HarnessError('pair generator vacuity: %r' % c)
    chk.assumptions = ['rvref (own RV32 decoder/executor) is the judge of what a lui/auipc pair computes',
                       'values outside [-2^31, 2^32) are not 32-bit values and are not generated']
    return chk.finish()


def replay(path):
    with open(path) as f:
        body = json.load(f)
    case = body['case']
    asm = env.load_asm()
    if case.get('kind') == 'value':
        why = _check_value(asm.relocate_hi, asm.relocate_lo, case['v'])
    else:
        from checks import c07_pairs
        why = c07_pairs.replay_case(case)
    if why:
        print('VIOLATION property=%s replay=%s' % (PROP, path))
        print('  ' + why)
        return env.EXIT_VIOLATION
    print('replay holds: %s' % path)
    return env.EXIT_OK
