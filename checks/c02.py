"""C02 - compressed (RV32C) instructions encode exactly as specified, one-to-one.

forward : 27 c.* mnemonics x every register 0..31 x every immediate in [lo - 2*span, hi + 2*span]
          through the encoder API (complete); whatever is accepted must decode (rvref.dec16) to a LEGAL
          instruction naming the same mnemonic, registers and immediate.
reverse : ALL 65,536 halfwords; for each one rvref classifies LEGAL its canonical text is assembled and
          must give back the halfword; #legal halfwords must equal #accepted canonical tuples.
"""
import itertools
import json
import struct

from vlib import apimap, env, rvref

PROP = 'C02'


def imm_window(mn):
    lo, hi, mult = rvref.C_IMM_RANGE[mn]
    span = hi - lo + mult
    return range(lo - 2 * span, hi + 2 * span + 1)


def canon_imm(mn, imm):
    return imm - (1 << 20) if (mn == 'c.lui' and 0xfffe0 <= imm <= 0xfffff) else imm


def forward_opt_job(mn):
    """The forward sweep of one mnemonic once more in a `python -O` child: validation that lives in assert statements is gone there."""
    return env.run_optimized('checks.c02', 'forward_job', (mn,))


def forward_job(mn):
    asm = env.load_asm()
    res = env.Result()
    names = rvref.C_OPERANDS[mn]
    regnames = [n for n in names if n != 'imm']
    has_imm = 'imm' in names
    imms = list(imm_window(mn)) if has_imm else [None]
    if mn == 'c.lui':
        imms += list(range(0xfffc0, 0x100010))
    fn = asm.INSTRUCTIONS[mn]
    accepted = {}
    n = 0
    for regs in itertools.product(range(32), repeat=len(regnames)):
        for imm in imms:
            f = dict(zip(regnames, regs))
            if has_imm:
                f['imm'] = imm
            n += 1
            try:
                code = fn(*[f[k] for k in names])
            except Exception:   # any exception is a refusal (today always ValueError)
                continue
            named = dict(f)
            if has_imm:
                named['imm'] = canon_imm(mn, imm)
            cls, m2, f2 = rvref.dec16(code & 0xffff) if isinstance(code, int) and 0 <= code <= 0xffff else ('notahalfword', None, None)
            if cls != rvref.LEGAL or m2 != mn or f2 != named:
                res.fail('forward:%s' % mn,
                         '%s %r accepted and encoded as 0x%04x, which is %s %s %r under RV32C' % (mn, f, code, cls, m2, f2),
                         {'kind': 'api', 'mn': mn, 'fields': f})
                continue
            key = tuple(sorted(named.items()))
            if key in accepted and accepted[key] != code:
                res.fail('forward:dup:%s' % mn, 'tuple %r encodes to both 0x%04x and 0x%04x' % (named, accepted[key], code),
                         {'kind': 'api', 'mn': mn, 'fields': f})
            accepted[key] = code
    codes = set(accepted.values())
    if len(codes) != len(accepted):
        res.fail('forward:collision:%s' % mn, '%d accepted canonical tuples share %d codes' % (len(accepted), len(codes)),
                 {'kind': 'count', 'mn': mn})
    res.evaluations = n
    res.nontrivial_count = len(accepted)
    res.count('accepted:' + mn, len(accepted))
    res.sample({'forward': mn, 'tuples_probed': n, 'accepted': len(accepted)})
    return res


def canonical_text(mn, f):
    parts = []
    for k in rvref.C_OPERANDS[mn]:
        parts.append(str(f[k]) if k == 'imm' else 'x%d' % f[k])
    return (mn + ' ' + ', '.join(parts)).strip()


def reverse_job(lo, hi):
    """Halfwords [lo, hi): canonical text of the legal ones, assembled in one batch."""
    asm = env.load_asm()
    res = env.Result()
    legal = []
    for h in range(lo, hi):
        cls, mn, f = rvref.dec16(h)
        if cls == rvref.LEGAL:
            legal.append((h, mn, f))
    res.evaluations = hi - lo
    res.nontrivial_count = len(legal)
    res.count('legal_halfwords', len(legal))
    for i in range(0, len(legal), 1000):
        chunk = legal[i:i + 1000]
        src = '\n'.join(canonical_text(mn, f) for _, mn, f in chunk) + '\n'
        out = None
        try:
            out = bytes(asm.assemble(src))
        except Exception:
            out = None
        if out is not None and len(out) == 2 * len(chunk):
            for j, (h, mn, f) in enumerate(chunk):
                got = struct.unpack_from('<H', out, 2 * j)[0]
                if got != h:
                    res.fail('reverse:%s' % mn, 'canonical text %r of legal halfword 0x%04x assembles to 0x%04x' % (canonical_text(mn, f), h, got),
                             {'kind': 'text', 'source': canonical_text(mn, f) + '\n', 'halfword': h})
            continue
        # the batch failed: find the lines
        for h, mn, f in chunk:
            line = canonical_text(mn, f)
            try:
                o = bytes(asm.assemble(line + '\n'))
                got = struct.unpack('<H', o)[0] if len(o) == 2 else None
                if got != h:
                    res.fail('reverse:%s' % mn, 'canonical text %r of legal halfword 0x%04x assembles to %r' % (line, h, o.hex()),
                             {'kind': 'text', 'source': line + '\n', 'halfword': h})
            except Exception as e:
                res.fail('reverse:refused:%s' % mn, 'canonical text %r of legal halfword 0x%04x is refused: %s' % (line, h, str(e)[-160:]),
                         {'kind': 'text', 'source': line + '\n', 'halfword': h})
    # the same lines with every register written through a register-alias constant (R_n = xN)
    prelude = ''.join('R_%d = x%d\n' % (i, i) for i in range(32))
    for i in range(0, len(legal), 1000):
        chunk = legal[i:i + 1000]
        lines = []
        for h, mn, f in chunk:
            parts = [str(f[k]) if k == 'imm' else 'R_%d' % f[k] for k in rvref.C_OPERANDS[mn]]
            lines.append((mn + ' ' + ', '.join(parts)).strip())
        res.evaluations += len(chunk)
        try:
            out = bytes(asm.assemble(prelude + '\n'.join(lines) + '\n'))
        except Exception as e:
            res.fail('reverse:alias:refused', 'canonical text with register aliases is refused: %s' % str(e)[-200:], {'kind': 'text', 'source': prelude + lines[0] + '\n', 'halfword': chunk[0][0]})
            continue
        for j, (h, mn, f) in enumerate(chunk):
            got = struct.unpack_from('<H', out, 2 * j)[0] if len(out) >= 2 * j + 2 else None
            if got != h:
                res.fail('reverse:alias:%s' % mn, '%r (registers through alias constants) assembles to %r, legal halfword is 0x%04x' % (lines[j], got, h),
                         {'kind': 'text', 'source': prelude + lines[j] + '\n', 'halfword': h})
            else:
                res.nontrivial_count += 1
    # the same lines with the mnemonic in upper / capitalised case, c.lw / c.sw also in the imm(reg) syntax
    for i in range(0, len(legal), 1000):
        chunk = legal[i:i + 1000]
        lines = []
        for k, (h, mn, f) in enumerate(chunk):
            head = mn.upper() if (h + k) % 3 == 0 else mn.capitalize() if (h + k) % 3 == 1 else mn
            if mn in ('c.lw', 'c.sw') and (h >> 2) % 2:
                a_, b_ = ('rd', 'rs1') if mn == 'c.lw' else ('rs2', 'rs1')
                lines.append('%s x%d, %d(x%d)' % (head, f[a_], f['imm'], f[b_]))
            else:
                lines.append((head + ' ' + ', '.join(str(f[n]) if n == 'imm' else 'x%d' % f[n] for n in rvref.C_OPERANDS[mn])).strip())
        res.evaluations += len(chunk)
        try:
            out = bytes(asm.assemble('\n'.join(lines) + '\n'))
        except Exception as e:
            out = None
        for j, (h, mn, f) in enumerate(chunk):
            if out is not None and len(out) == 2 * len(chunk):
                got = struct.unpack_from('<H', out, 2 * j)[0]
            else:
                try:
                    o = bytes(asm.assemble(lines[j] + '\n'))
                    got = struct.unpack('<H', o)[0] if len(o) == 2 else o.hex()
                except Exception as e:
                    got = 'refused: ' + str(e)[-120:]
            if got != h:
                res.fail('reverse:case:%s' % mn, '%r (mnemonic case / imm(reg) variant of the canonical text) gives %r, legal halfword is 0x%04x' % (lines[j], got, h),
                         {'kind': 'text', 'source': lines[j] + '\n', 'halfword': h})
            else:
                res.nontrivial_count += 1
    if legal:
        h, mn, f = legal[len(legal) // 2]
        res.sample({'reverse': '0x%04x' % h, 'text': canonical_text(mn, f)})
    return res


def expr_forms(v, k):
    """The integer v written as arithmetic (docs: immediates may be expressions); several forms start with a bare decimal 0..31,
    a spelling that is also a register name."""
    a = [0, 1, 2, 4, 8, 16, 31, 5][k % 8]
    forms = ['%d + %d' % (a, v - a) if v - a >= 0 else '%d - %d' % (a, a - v), '%d+%d' % (a, v - a) if v - a >= 0 else '%d-%d' % (a, a - v),
             '%d * 1' % v if v >= 0 else '-1 * %d' % -v, '1 * %d' % v if v >= 0 else '%d * -1' % -v, '%d + (%d)' % (a, v - a), 'EXK_1 + %d' % (v - 1) if v >= 1 else 'EXK_1 - %d' % (1 - v),
             '%d - EXK_1' % (v + 1) if v + 1 >= 0 else '-%d - EXK_1' % -(v + 1), '%d << 1 >> 1' % v if v >= 0 else '-(%d)' % -v, '%d | 0' % v if v >= 0 else '~%d' % (~v)]
    if v % 4 == 0 and v > 0:
        forms += ['4 * %d' % (v // 4), '%d << 2' % (v // 4), '2 * 2 * %d' % (v // 4)]
    if v % 2 == 0 and v > 0:
        forms += ['2 * %d' % (v // 2)]
    return forms


def text_expr_job(mn):
    """Every c.* mnemonic with an immediate: a sample of legal immediates written as arithmetic expressions must give the halfword of the
    literal spelling."""
    asm = env.load_asm()
    res = env.Result()
    names = rvref.C_OPERANDS[mn]
    lo, hi, mult = rvref.C_IMM_RANGE[mn]
    vals = sorted({v for v in [lo, lo + mult, lo + 2 * mult, hi, hi - mult, hi - 2 * mult, 0, mult, -mult, 2 * mult, 4 * mult, 12, 20, 16, 24, 48, -16, 64, 100, 124, 256]
                   if lo <= v <= hi and v % mult == 0})
    regsets = [[8, 9], [15, 8], [10, 12]] if any(n in names for n in ('rs1', 'rs2')) or mn in ('c.addi4spn', 'c.srli', 'c.srai', 'c.andi', 'c.beqz', 'c.bnez') else [[5, 6], [1, 3], [31, 15], [8, 9]]
    cases = []
    for v in vals:
        for regs in regsets:
            f = dict(zip([n for n in names if n != 'imm'], regs))
            f['imm'] = v
            try:
                h = rvref.enc16(mn, f)
            except Exception:
                continue
            if rvref.dec16(h) != (rvref.LEGAL, mn, f):
                continue
            for k, e in enumerate(expr_forms(v, v // max(mult, 1) + regs[0])):
                cases.append((h, mn + ' ' + ', '.join(e if n == 'imm' else 'x%d' % f[n] for n in names)))
            break
    res.evaluations = len(cases)
    for h, line in cases:
        try:
            out = bytes(asm.assemble('EXK_1 = 1\n' + line + '\n'))
        except Exception as e:
            res.fail('textexpr:refused:%s' % mn, 'line %r (a legal immediate written as arithmetic) is refused: %s' % (line, str(e)[-160:]), {'kind': 'text', 'source': 'EXK_1 = 1\n' + line + '\n', 'halfword': h})
            continue
        if out != struct.pack('<H', h):
            res.fail('textexpr:%s' % mn, 'line %r assembles to %s, the literal spelling gives 0x%04x' % (line, out.hex(), h), {'kind': 'text', 'source': 'EXK_1 = 1\n' + line + '\n', 'halfword': h})
        else:
            res.nontrivial_count += 1
    if cases:
        res.sample({'expression_immediate': cases[len(cases) // 2][1]})
    return res


def text_forward_job(mn, seed):
    """Thorough only: the forward window through the text front end (register spellings vary)."""
    asm = env.load_asm()
    res = env.Result()
    names = rvref.C_OPERANDS[mn]
    regnames = [n for n in names if n != 'imm']
    has_imm = 'imm' in names
    imms = list(imm_window(mn)) if has_imm else [None]
    from vlib import ir
    n = 0
    for regs in itertools.product(range(32), repeat=len(regnames)):
        if len(regnames) == 2 and (regs[0] * 7 + regs[1] + seed) % 4:
            continue   # two-register forms: a quarter of the pairs, all immediates
        for imm in imms:
            f = dict(zip(regnames, regs))
            if has_imm:
                f['imm'] = imm
            k = env.derive(seed, mn, regs, imm) % 3
            parts = []
            for nm in names:
                if nm == 'imm':
                    parts.append(str(imm) if k != 1 else (hex(imm) if imm >= 0 else '-' + hex(-imm)))
                else:
                    parts.append(['x%d' % f[nm], ir.ABI[f[nm]], str(f[nm])][k])
            line = mn + ' ' + ' '.join(parts)
            n += 1
            try:
                out = bytes(asm.assemble(line + '\n'))
            except Exception:
                continue
            code = struct.unpack('<H', out)[0] if len(out) == 2 else None
            cls, m2, f2 = rvref.dec16(code) if code is not None else ('wrong length', None, None)
            if cls != rvref.LEGAL or m2 != mn or f2 != f:
                res.fail('textforward:%s' % mn, 'line %r accepted and emitted %s = %s %s %r' % (line, out.hex(), cls, m2, f2),
                         {'kind': 'text', 'source': line + '\n', 'halfword': None, 'mn': mn, 'fields': f})
            else:
                res.nontrivial_count += 1
    res.evaluations = n
    return res


def run(tier):
    chk = env.Check(PROP, tier)
    try:
        st = rvref.selftest()
    except AssertionError as e:
        raise env.HarnessError('rvref self test failed: %r' % (e,))
    jobs = [(mn,) for mn in rvref.C_MNEMONICS]
    chk.merge(env.run_shards(forward_job, jobs))
    accepted = sum(v for k, v in chk.res.classes.items() if k.startswith('accepted:'))
    chk.merge(env.run_shards(reverse_job, [(a, a + 2048) for a in range(0, 0x10000, 2048)]))
    chk.merge(env.run_shards(text_expr_job, [(mn,) for mn in rvref.C_MNEMONICS if 'imm' in rvref.C_OPERANDS[mn]]))
    opt = env.run_shards(forward_opt_job, jobs)
    for r in opt:
        r.classes = {k: v for k, v in r.classes.items() if not k.startswith('accepted:')}   # (counted once, above)
        r.samples = []
    chk.merge(opt)
    legal = chk.res.classes.get('legal_halfwords', 0)
    if legal != 28461:
        raise env.HarnessError('rvref counts %d legal halfwords, expected 28461' % legal)
    if accepted != legal and not chk.res.failures:
        chk.res.fail('count', 'encoder accepts %d canonical tuples, RV32C has %d legal non-hint halfwords' % (accepted, legal),
                     {'kind': 'count'})
    if tier == 'thorough':
        chk.merge(env.run_shards(text_forward_job, [(mn, chk.seed) for mn in rvref.C_MNEMONICS]))
    chk.exhaustive = True
    chk.extra['accepted_canonical_tuples'] = accepted
    chk.extra['legal_halfwords'] = legal
    chk.rule = ('forward: complete product registers 0..31 x immediates in [lo-2*span, hi+2*span] per c.* mnemonic through the '
                'encoder API, in the normal interpreter and again in `python -O` children (thorough: also through the text front end); reverse: all 65,536 halfwords, canonical text of every '
                'LEGAL one assembled (also with registers through alias constants, and with the mnemonic in upper / capitalised case and c.lw / c.sw in the imm(reg) syntax); legal immediates of every c.* mnemonic also written as arithmetic expressions (a + b, a * b, with a constant, shifts ...). non-trivial = accepted tuples + legal halfwords (distinct by construction)')
    chk.assumptions = ['rvref.dec16/enc16 transcribed from the RVC chapter; 28,461 legal non-hint RV32C integer halfwords']
    return chk.finish()


def replay(path):
    with open(path) as f:
        body = json.load(f)
    case = body['case']
    asm = env.load_asm()
    why = None
    if case['kind'] == 'api' and case.get('optimize'):
        r = forward_opt_job(case['mn'])
        if r.failures:
            why = r.failures[0]['what']
    elif case['kind'] == 'api':
        mn, f = case['mn'], case['fields']
        try:
            code = apimap.call_encoder(asm, mn, f)
            named = dict(f)
            if 'imm' in named:
                named['imm'] = canon_imm(mn, named['imm'])
            cls, m2, f2 = rvref.dec16(code & 0xffff)
            if cls != rvref.LEGAL or m2 != mn or f2 != named:
                why = '%s %r accepted and encoded as 0x%04x, which is %s %s %r' % (mn, f, code, cls, m2, f2)
        except Exception:   # any exception is a refusal (today always ValueError)
            pass
    elif case['kind'] == 'text':
        try:
            out = bytes(asm.assemble(case['source']))
            if case.get('halfword') is not None:
                if out != struct.pack('<H', case['halfword']):
                    why = '%r assembles to %s, legal halfword is 0x%04x' % (case['source'], out.hex(), case['halfword'])
            else:
                code = struct.unpack('<H', out)[0] if len(out) == 2 else None
                cls, m2, f2 = rvref.dec16(code) if code is not None else ('wrong length', None, None)
                if cls != rvref.LEGAL or m2 != case['mn'] or f2 != case['fields']:
                    why = '%r emitted %s = %s %s %r' % (case['source'], out.hex(), cls, m2, f2)
        except Exception as e:
            if case.get('halfword') is not None:
                why = '%r refused: %s' % (case['source'], e)
    else:
        return run('quick')
    if why:
        print('VIOLATION property=%s replay=%s' % (PROP, path))
        print('  ' + why)
        return env.EXIT_VIOLATION
    print('replay holds: %s' % path)
    return env.EXIT_OK
