"""C14 - include is textual splicing, resolved independently of the working directory."""
import io
import json
import os
import sys

from hypothesis import strategies as st

from vlib import env, ir, progcheck, strategies as S

PROP = 'C14'
PROFILE = S.profile(n_items=(3, 24), far=False, big_gaps=False, w_group=1, w_labelval=3, n_consts=(0, 5), p_const_operand=0.3, p_alias=0.2)
N = {'quick': 320, 'thorough': 20000}
DEPTH_DIRS = ['p1', 'p2', 'p3', 'p4', 'src']   # main lives in root/p1/p2/p3/p4/src


class Node:
    def __init__(self):
        self.entries = []   # ('line', text) | ('inc', child Node)
        self.name = None
        self.place = None   # same | sub | parent | sibling | incdir
        self.form = 0
        self.alt_lines = None   # for an ambiguous include: content of the same-named file in the -i directory


@st.composite
def trees(draw):
    prog = draw(S.programs(PROFILE))
    lines = [it.render(ir.Style(0)) for it in prog.items]
    counter = [0]
    ambiguous = [draw(st.integers(0, 3)) == 0]

    def build(lines, depth):
        node = Node()
        i = 0
        n = len(lines)
        while i < n:
            if depth < 4 and n - i >= 1 and draw(st.integers(0, 3 if depth == 0 else 5)) == 0:
                j = draw(st.integers(i, n))      # may be empty: an included file with no lines
                child = build(lines[i:j], depth + 1)
                counter[0] += 1
                child.place = draw(st.sampled_from(['same', 'sub', 'parent', 'sibling', 'incdir', 'incdir2']))
                # names are unique, except that the main file may pull in a `defs.asm` from both its sub-directory and its
                # sibling directory (same name in several directories, never both reachable from one include line)
                child.name = ('f%d.asm' if draw(st.integers(0, 3)) else 'fX%d.Asm') % counter[0]   # (file names are case-sensitive)
                # the same written name may be used by includers that live in different directories (each resolves to its own
                # neighbour); -i files and everything included from below a -i directory keep unique names (write_tree enforces
                # it) so that no include line ever has two documented candidates by accident
                if child.place in ('same', 'sub') and draw(st.integers(0, 9)) < 7:   # (a name with `..` is also searched relative to each -i directory)
                    child.name = draw(st.sampled_from(['body.asm', 'defs.asm']))
                child.form = draw(st.integers(0, 17))    # 9..17: the written name gets a leading ./
                if ambiguous[0] and child.place == 'same' and child.name.startswith('f') and all(e[0] == 'line' for e in child.entries):
                    ambiguous[0] = False
                    child.alt_lines = [e[1] for e in child.entries] + ['addi x0, x0, 0']
                node.entries.append(('inc', child))
                if draw(st.integers(0, 7)) == 0:
                    node.entries.append(('again', child))    # the same include line a second time: the file is spliced in twice
                i = j
            else:
                node.entries.append(('line', lines[i]))
                i += 1
                if draw(st.integers(0, 11)) == 0:
                    # a binary file embedded with include_bytes, found relative to THIS file (same written name in several
                    # directories on purpose); even size so that the code behind it stays aligned
                    nb = 2 * draw(st.integers(1, 6))
                    seedv = draw(st.integers(0, 255))
                    content = bytes((seedv + 17 * k) & 0xff for k in range(nb))
                    node.entries.append(('bin', draw(st.sampled_from(['table.bin', 'table.bin', 'font.dat'])), content.hex()))
        return node

    root = build(lines, 0)
    cwd = draw(st.sampled_from(['srcdir', 'root', 'elsewhere', 'elsewhere_decoys', 'incdir']))
    return {'root': root, 'cwd': cwd, 'main_rel': draw(st.booleans()), 'compress': draw(st.booleans()),
            'cli': draw(st.integers(0, 3)) == 0, 'prog': prog}


def flatten(node, use_alt=False):
    out = []
    for e in node.entries:
        if e[0] == 'line':
            out.append(e[1])
        elif e[0] == 'bin':
            out.append('bytes ' + ' '.join(str(b) for b in bytes.fromhex(e[2])))
        else:
            child = e[1]   # ('inc', child) and ('again', child) both splice the file's lines in
            if use_alt and child.alt_lines is not None:
                out.extend(child.alt_lines)
            else:
                out.extend(flatten(child, use_alt))
    return out


def write_tree(node, directory, rootdir, names_used, stats, depth=0, anc_dirs=()):
    """Write node's file content into `directory`; returns the text of the file."""
    text = []
    under_inc = os.path.commonpath([directory, os.path.join(rootdir, 'inc1')]) == os.path.join(rootdir, 'inc1') or \
        os.path.commonpath([directory, os.path.join(rootdir, 'inc2')]) == os.path.join(rootdir, 'inc2')
    for e in node.entries:
        if e[0] == 'line':
            text.append(e[1])
            continue
        if e[0] == 'bin':
            name, content = e[1], bytes.fromhex(e[2])
            if under_inc:
                stats['uniq'] = stats.get('uniq', 0) + 1
                name = 'bu%d.bin' % stats['uniq']    # below a -i directory every name stays unique (see above)
            path = os.path.join(directory, name)
            k = 0
            while path in names_used:
                k += 1
                path = os.path.join(directory, name.replace('.', '_%d.' % k))
            names_used.add(path)
            with open(path, 'wb') as f:
                f.write(content)
            # decoys of the same name (and size) further up the include chain must never be embedded
            for adir in anc_dirs:
                dpath = os.path.join(adir, os.path.basename(path))
                inc_roots = (os.path.join(rootdir, 'inc1'), os.path.join(rootdir, 'inc2'))
                if adir == directory or adir in inc_roots or dpath in names_used:
                    continue
                with open(dpath, 'wb') as f:
                    f.write(bytes(b ^ 0x5a for b in content))
                names_used.add(dpath)
            text.append('include_bytes ' + os.path.basename(path))
            stats['bins'] = stats.get('bins', 0) + 1
            stats.setdefault('written', {}).setdefault('bytes:' + os.path.basename(path), set()).add(path)
            continue
        child = e[1]
        if e[0] == 'again':
            text.append(getattr(child, 'include_line', None) or '# (repeat dropped)')
            if getattr(child, 'include_line', None):
                stats['repeated_includes'] = stats.get('repeated_includes', 0) + 1
            continue
        if under_inc and not child.name.startswith('f'):
            stats['uniq'] = stats.get('uniq', 0) + 1
            child.name = 'fu%d.asm' % stats['uniq']
        stats['depth'] = max(stats['depth'], depth + 1)
        if child.place in ('parent', 'sibling') and not (os.path.dirname(directory) + os.sep).startswith(rootdir + os.sep):
            child.place = 'same'    # never leave the scratch tree (a file directly below its root has no parent inside it)
        if child.place == 'same':
            cdir, written = directory, child.name
        elif child.place == 'sub':
            cdir, written = os.path.join(directory, 'sub'), 'sub/' + child.name
        elif child.place == 'parent':
            cdir, written = os.path.dirname(directory), '../' + child.name
        elif child.place == 'sibling':
            cdir, written = os.path.join(os.path.dirname(directory), 'sib'), '../sib/' + child.name
        elif child.place == 'incdir':
            cdir, written = os.path.join(rootdir, 'inc1'), child.name
            stats['incdir'] = True
        else:
            cdir, written = os.path.join(rootdir, 'inc2'), child.name
            stats['incdir'] = True
        os.makedirs(cdir, exist_ok=True)
        path = os.path.join(cdir, child.name)
        k = 0
        while path in names_used:   # keep every file distinct: rename on collision
            k += 1
            base = child.name.replace('.asm', '_%d.asm' % k).replace('.Asm', '_%d.Asm' % k)
            path = os.path.join(cdir, base)
            written = written.rsplit('/', 1)[0] + '/' + base if '/' in written else base
        names_used.add(path)
        # decoys: a file with the same written path below every directory higher up the include chain - the documentation searches
        # only next to the including file and in the -i directories, so these must never be picked
        for adir in anc_dirs:
            dpath = os.path.normpath(os.path.join(adir, written))
            inc_roots = (os.path.join(rootdir, 'inc1'), os.path.join(rootdir, 'inc2'))
            reachable = [os.path.normpath(os.path.join(x, written)) for x in inc_roots + (directory,)]
            if adir == directory or adir in inc_roots or dpath in names_used or dpath in reachable or not dpath.startswith(rootdir + os.sep):
                continue
            os.makedirs(os.path.dirname(dpath), exist_ok=True)
            with open(dpath, 'w', encoding='utf-8') as f:
                f.write('error decoy from a directory further up the include chain was included\n')
            names_used.add(dpath)
            stats['ancestor_decoys'] = stats.get('ancestor_decoys', 0) + 1
        body = write_tree(child, cdir, rootdir, names_used, stats, depth + 1, anc_dirs + (directory,))
        real = path
        if env.chash('link' + path[len(rootdir):])[0] % 5 == 0:
            # the included file is a symbolic link into a store directory: ITS includes are still looked up next to the link
            # (files are searched relative to the file containing the include - the name it was reached by)
            stats['symlinked_files'] = stats.get('symlinked_files', 0) + 1
            os.makedirs(os.path.join(rootdir, 'store'), exist_ok=True)
            real = os.path.join(rootdir, 'store', 'obj%d_%s' % (stats['symlinked_files'], os.path.basename(path)))
            os.symlink(real, path)
        with open(real, 'w', encoding='utf-8') as f:
            f.write(body)
        if not under_inc and child.place in ('same', 'sub') and env.chash(path[len(rootdir):])[0] % 3 == 0:
            # a file whose name differs from the written one only in CASE sits in a -i directory: not the file that was asked for
            cv = os.path.join(rootdir, 'inc1', os.path.dirname(written), os.path.basename(written).swapcase())
            if cv not in names_used and not os.path.exists(cv):
                os.makedirs(os.path.dirname(cv), exist_ok=True)
                with open(cv, 'w', encoding='utf-8') as f:
                    f.write('error a case-variant of the include name was taken from a -i directory\n')
                names_used.add(cv)
                stats['case_variants_in_incdir'] = stats.get('case_variants_in_incdir', 0) + 1
        twin = os.path.join(os.path.dirname(path), os.path.basename(path).lower())
        if twin != path and twin not in names_used:
            # an all-lower-case twin right next to a mixed-case file name: never the file that was asked for
            with open(twin, 'w', encoding='utf-8') as f:
                f.write('error the lower-case twin of a mixed-case include name was included\n')
            names_used.add(twin)
            stats['case_twins'] = stats.get('case_twins', 0) + 1
        if child.alt_lines is not None:
            alt = os.path.join(rootdir, 'inc1', os.path.basename(path))
            if alt not in names_used:
                os.makedirs(os.path.dirname(alt), exist_ok=True)
                with open(alt, 'w', encoding='utf-8') as f:
                    f.write('\n'.join(child.alt_lines) + '\n')
                names_used.add(alt)
                stats['ambiguous'] = True
            else:
                child.alt_lines = None
        form = child.form
        if form >= 9:
            # ./name, ./sub/name, ./../name: the same file for every directory the name is looked up in
            written = './' + written
            stats['dot_slash_names'] = stats.get('dot_slash_names', 0) + 1
        line = ['include %s', 'include "%s"', "include '%s'", 'include %s  # pulled in', 'include   %s', 'include %s# glued comment', 'include "%s"#glued', 'include "%s"   # quoted, then a comment', "include '%s' \t"][form % 9] % written
        child.include_line = line
        text.append(line)
        stats['names'].append(os.path.basename(path))
        stats.setdefault('written', {}).setdefault(written, set()).add(path)
    body = '\n'.join(text) + ('\n' if text else '')
    if body and env.chash(body)[0] % 4 == 0:
        # one file in four ends without a final newline (a pure function of the file's text, so replays see the same)
        stats['no_final_newline'] = stats.get('no_final_newline', 0) + 1
        body = body[:-1]
    return body


def run_cli(a, argv, cwd):
    old = sys.argv
    sys.argv = ['bronzebeard'] + argv
    try:
        with env.cwd(cwd), env.quiet_stdio() as (o, e):
            try:
                a.cli_main()
                code = 0
            except SystemExit as ex:
                code = ex.code if isinstance(ex.code, int) else (0 if ex.code is None else 1)
            except Exception as ex:   # e.g. a RecursionError out of the code under test: a failed run
                code = 'raised %s' % type(ex).__name__
    finally:
        sys.argv = old
    return code


def judge(case, res):
    a = env.load_asm()
    res.evaluations += 1
    node = _load(_dump(case['root']))   # write_tree renames / drops alternatives in place: work on a copy
    with env.scratch_dir('bbv-c14-') as root:
        srcdir = os.path.join(root, *DEPTH_DIRS)
        os.makedirs(srcdir)
        for d in ('inc1', 'inc2', 'other'):
            os.makedirs(os.path.join(root, d))
        stats = {'depth': 0, 'incdir': False, 'ambiguous': False, 'names': []}
        names_used = set()
        main_text = write_tree(node, srcdir, root, names_used, stats)
        main = os.path.join(srcdir, 'main.asm')
        with open(main, 'w', encoding='utf-8') as f:
            f.write(main_text)
        other = os.path.join(root, 'other')
        if case['cwd'] == 'elsewhere_decoys':
            for nm in ('table.bin', 'font.dat'):
                for d in (other, os.path.join(other, 'sub')):
                    os.makedirs(d, exist_ok=True)
                    with open(os.path.join(d, nm), 'wb') as f:
                        f.write(b'\xde\xc0' * 3)
            for nm in set(stats['names']) | {'main.asm'}:
                for d in (other, os.path.join(other, 'sub')):
                    os.makedirs(d, exist_ok=True)
                    with open(os.path.join(d, nm), 'w') as f:
                        f.write('DECOY_CONSTANT = 1\nerror decoy file from the working directory was included\n')
        cwd = {'srcdir': srcdir, 'root': root, 'elsewhere': other, 'elsewhere_decoys': other, 'incdir': os.path.join(root, 'inc1')}[case['cwd']]
        inc = [os.path.join(root, 'inc1'), os.path.join(root, 'inc2')]
        comp = case['compress']
        # expectation(s): own splicer, assembled from a string (no includes left)
        flats = [flatten(node, False)]
        if stats['ambiguous']:
            flats.append(flatten(node, True))
        exps = []
        for fl in flats:
            with env.cwd(other):
                exps.append(progcheck.assemble(a, '\n'.join(fl) + '\n', comp))
        with env.cwd(cwd):
            path = os.path.relpath(main, cwd) if case['main_rel'] else main
            got = progcheck.assemble(a, path, comp, include_dirs=inc)
        cli = None
        if case['cli']:
            outp, labp = os.path.join(root, 'cli.bin'), os.path.join(root, 'cli.labels')
            argv = (['-c'] if comp else []) + ['-i', inc[0], '-i', inc[1], '-o', outp, '-l', labp, os.path.relpath(main, cwd) if case['main_rel'] else main]
            code = run_cli(a, argv, cwd)
            data = open(outp, 'rb').read() if os.path.exists(outp) else None
            cli = (code, data)
    desc = 'cwd=%s main_rel=%s compress=%s depth=%d' % (case['cwd'], case['main_rel'], comp, stats['depth'])

    def same(x, y):
        if x[0] != 'ok' or y[0] != 'ok':
            return x[0] != 'ok' and y[0] != 'ok'
        return x[1] == y[1] and x[2] == y[2] and x[3] == y[3]

    if not any(same(got, e) for e in exps):
        e0 = exps[0]
        if got[0] != 'ok' and e0[0] == 'ok':
            why = 'include version is refused (%s: %s) but the spliced text assembles' % (type(got[1]).__name__, str(got[1])[-250:])
            sig = 'include:refused:%s' % ('cwd=src' if case['cwd'] == 'srcdir' else 'cwd!=src')
        elif got[0] == 'ok' and e0[0] != 'ok':
            why = 'include version assembles but the spliced text is refused (%s)' % str(e0[1])[-250:]
            sig = 'include:accepted'
        else:
            why = 'include version differs from the spliced text: bytes %s vs %s, labels %r vs %r, constants equal: %s' % (
                got[1][:16].hex(), e0[1][:16].hex(), got[2], e0[2], got[3] == e0[3])
            sig = 'include:differs:%s' % ('cwd=src' if case['cwd'] == 'srcdir' else 'cwd!=src')
        raise env.CaseFailure(sig, why + '\n  ' + desc + '\n--- main.asm\n' + main_text[:600] + '--- spliced\n' + '\n'.join(flats[0])[:600],
                              {'kind': 'tree', 'tree': _dump(node), 'cwd': case['cwd'], 'main_rel': case['main_rel'], 'compress': comp, 'cli': case['cli']})
    if cli is not None:
        if got[0] == 'ok' and (cli[0] != 0 or cli[1] != got[1]):
            raise env.CaseFailure('include:cli', 'command line run (exit %r) differs from the API result (%s)\n  %s' % (cli[0], desc, main_text[:300]),
                                  {'kind': 'tree', 'tree': _dump(node), 'cwd': case['cwd'], 'main_rel': case['main_rel'], 'compress': comp, 'cli': True})
        res.count('cli_runs')
    res.count('accepted' if got[0] == 'ok' else 'refused_both')
    res.count('cwd:' + case['cwd'])
    res.count('depth:%d' % stats['depth'])
    if stats['ambiguous']:
        res.count('ambiguous_name')
    if stats.get('ancestor_decoys'):
        res.count('trees_with_ancestor_decoys')
    if stats.get('bins'):
        res.count('trees_with_include_bytes')
    if stats.get('repeated_includes'):
        res.count('trees_with_a_file_included_twice')
    if stats.get('dot_slash_names'):
        res.count('trees_with_dot_slash_include_names')
    if stats.get('case_twins'):
        res.count('trees_with_mixed_case_include_names')
    if stats.get('no_final_newline'):
        res.count('trees_with_a_file_without_final_newline')
    if stats.get('symlinked_files'):
        res.count('trees_with_a_symlinked_include_file')
    if any(len(v) > 1 for v in stats.get('written', {}).values()):
        res.count('trees_where_one_include_text_means_different_files')
    if len(set(stats['names'])) < len(stats['names']):
        res.count('trees_with_same_name_in_several_directories')
    if got[0] == 'ok' and (stats['depth'] >= 2 or stats['incdir'] or case['cwd'] == 'elsewhere_decoys'):
        res.nt(env.chash((main_text, _dump(node), case['cwd'], comp)))
    if res.evaluations % 37 == 1:
        res.sample({'main.asm': main_text[:400], 'cwd': case['cwd'], 'depth': stats['depth']})


def _dump(node):
    return {'name': node.name, 'place': node.place, 'form': node.form, 'alt': node.alt_lines,
            'entries': [['line', e[1]] if e[0] == 'line' else (['bin', e[1], e[2]] if e[0] == 'bin' else ([e[0], _dump(e[1])] if e[0] == 'inc' else ['again', node.entries.index(('inc', e[1]))])) for e in node.entries]}


def _load(d):
    n = Node()
    n.name, n.place, n.form, n.alt_lines = d['name'], d['place'], d['form'], d['alt']
    n.entries = []
    for e in d['entries']:
        if e[0] == 'line':
            n.entries.append(('line', e[1]))
        elif e[0] == 'bin':
            n.entries.append(('bin', e[1], e[2]))
        elif e[0] == 'inc':
            n.entries.append(('inc', _load(e[1])))
        else:
            n.entries.append(('again', n.entries[e[1]][1]))
    return n


def shard(n, s, shrink=False):
    res = env.Result()
    env.run_hypothesis(judge, trees(), n, env.derive(env.seed_value(), PROP, s), res, env.load_known(), PROP, shrink=shrink)
    return res


def cwd_only_job():
    """A name that exists ONLY in the working directory (and in an unrelated directory) is not an include candidate: files are
    searched next to the including file and in the -i directories.  include and include_bytes, API and command line."""
    a = env.load_asm()
    res = env.Result()
    with env.scratch_dir('bbv-c14w-') as root:
        for d in ('proj/src', 'inc', 'work', 'work/sub'):
            os.makedirs(os.path.join(root, d))
        with open(os.path.join(root, 'work', 'only_here.asm'), 'w') as f:
            f.write('addi x0, x0, 0\n')
        with open(os.path.join(root, 'work', 'only_here.bin'), 'wb') as f:
            f.write(b'1234')
        with open(os.path.join(root, 'inc', 'fine.asm'), 'w') as f:
            f.write('addi x1, x1, 1\n')
        for k, line in enumerate(['include only_here.asm', 'include_bytes only_here.bin', 'include "only_here.asm"  # c']):
            main = os.path.join(root, 'proj', 'src', 'm%d.asm' % k)
            with open(main, 'w') as f:
                f.write('include fine.asm\n' + line + '\naddi x2, x2, 2\n')
            for mode in ('api', 'cli'):
                res.evaluations += 1
                res.nontrivial_count += 1
                with env.cwd(os.path.join(root, 'work')):
                    if mode == 'api':
                        r = progcheck.assemble(a, main, False, include_dirs=[os.path.join(root, 'inc')])
                        accepted = r[0] == 'ok'
                    else:
                        code = run_cli(a, ['-i', os.path.join(root, 'inc'), '-o', os.path.join(root, 'o.bin'), main], os.path.join(root, 'work'))
                        accepted = code == 0
                if accepted:
                    res.fail('include:cwd_only', '%r is accepted (%s) although the name exists only in the working directory, not next to the including file nor in a -i directory' % (line, mode),
                             {'kind': 'cwd_only'})
    return res


def run(tier):
    chk = env.Check(PROP, tier)
    chk.rule = ('Hypothesis file trees: a generated program cut into nested include files (depth <= 4; files in the same directory, a '
                'sub-directory, the parent, a sibling and two -i directories; include line first/middle/last, quoted/unquoted/'
                'commented; one optional same-named file in a -i directory), assembled through the API (and 1 in 4 through the command '
                'line) with cwd = source dir / tree root / unrelated dir / unrelated dir full of decoys of every included name; main '
                'path absolute or relative; oracle: own splicer -> flat text assembled from a string: bytes, labels and constants '
                'equal (either candidate when a name is ambiguous). non-trivial = accepted tree with depth >= 2, a -i file, or decoys '
                'in the cwd; distinct by (tree, cwd, mode). Trees also contain include_bytes lines (same name, different file per directory), '
                'files included twice, symlinked include files, and the cwd may be one of the -i directories; plus: a name that exists only in the working directory is not a candidate')
    per = max(1, N[tier] // env.NPROC)
    chk.merge(env.run_shards(shard, [(per, s, tier == 'thorough') for s in range(env.NPROC)]))   # shrinking file trees is slow: thorough only
    chk.merge(env.run_shards(cwd_only_job, [()]))
    return chk.finish()


def replay(path):
    with open(path) as f:
        body = json.load(f)
    if body['case'].get('kind') == 'cwd_only':
        r = cwd_only_job()
        if r.failures:
            print('VIOLATION property=%s replay=%s' % (PROP, path))
            return env.EXIT_VIOLATION
        print('replay holds: %s' % path)
        return env.EXIT_OK
    c = body['case']
    case = {'root': _load(c['tree']), 'cwd': c['cwd'], 'main_rel': c['main_rel'], 'compress': c['compress'], 'cli': c.get('cli', False)}
    try:
        judge(case, env.Result())
    except env.CaseFailure as cf:
        print('VIOLATION property=%s replay=%s' % (PROP, path))
        print('  ' + str(cf.what)[:1200])
        return env.EXIT_VIOLATION
    print('replay holds: %s' % path)
    return env.EXIT_OK
