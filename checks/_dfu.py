"""Runs bronzebeard.dfu.cli_main() in-process against vlib.dfusim."""
import os
import random
import sys

from vlib import dfusim, env

_dfu = None


def load_dfu():
    global _dfu
    if _dfu is None:
        env.load_asm()
        # the real `usb` package may or may not be importable; the module only needs the names at import time
        try:
            from bronzebeard import dfu
        except ImportError:
            import types
            usb = types.ModuleType('usb')
            usb.core = types.ModuleType('usb.core')
            usb.backend = types.ModuleType('usb.backend')
            usb.backend.libusb1 = types.ModuleType('usb.backend.libusb1')
            sys.modules.update({'usb': usb, 'usb.core': usb.core, 'usb.backend': usb.backend, 'usb.backend.libusb1': usb.backend.libusb1})
            from bronzebeard import dfu
        got = os.path.realpath(dfu.__file__)
        want = os.path.realpath(os.path.join(env.REPO, 'bronzebeard', 'dfu.py'))
        if got != want:
            raise env.HarnessError('bronzebeard.dfu imported from %s' % got)
        _dfu = dfu
    return _dfu


def firmware(seed, n, tail):
    r = random.Random(seed)
    data = bytearray(r.randbytes(n)) if n else bytearray()
    if n and tail in (1, 2):
        k = min(n, r.randrange(1, 40))
        data[-k:] = bytes([{1: 0x00, 2: 0xff}[tail]]) * k
    elif tail == 3 and n >= 16:
        # the file ends in a DFU suffix (dfu-suffix / dfu-util -a write one: bcdDevice, idProduct, idVendor, bcdDFU, "UFD", 16, CRC);
        # the flasher takes a raw binary, so these 16 bytes are part of the image like any others
        import struct
        import zlib
        data[-16:-4] = struct.pack('<HHHH3sB', 0xffff, 0x0189, 0x28e9, 0x0100, b'UFD', 16)
        data[-4:] = struct.pack('<I', zlib.crc32(bytes(data[:-4])) ^ 0xffffffff)
    return bytes(data)


def run(page_count, fw, schedule, workdir, symlink=False, device_id='28e9:0189', present=True):
    """Returns dict(exit=..., out=..., device=..., clock=...).  symlink: the path on the command line is a symbolic link
    to the firmware file (latest.bin -> firmware-v2.bin), as release directories often have it."""
    dfu = load_dfu()
    clock = dfusim.Clock()
    dev = dfusim.Device(page_count, clock, schedule)
    # one run in three: a file name with glob metacharacters, next to a file that the name would match as a PATTERN
    odd_name = len(fw) % 3 == 1
    path = os.path.join(workdir, 'fw[v2].bin' if odd_name else 'firmware.bin')
    for p in (path, os.path.join(workdir, 'firmware-v2.bin'), os.path.join(workdir, 'fwv.bin'), os.path.join(workdir, 'fw2.bin'),
              os.path.join(workdir, 'firmware.bin'), os.path.join(workdir, 'fw[v2].bin')):
        if os.path.lexists(p):
            os.remove(p)
    if odd_name:
        for decoy in ('fwv.bin', 'fw2.bin'):
            with open(os.path.join(workdir, decoy), 'wb') as f:
                f.write(b'\x55' * max(1, len(fw) // 2))
    if symlink == 'dotdot':
        # (round 10) the path goes through a symbolic link to a directory and back up: latest -> rel/out, latest/../<name> is
        # rel/<name> (the operating system resolves the link first), NOT <workdir>/<name>, where a decoy of another content sits
        name = os.path.basename(path)
        os.makedirs(os.path.join(workdir, 'rel', 'out'), exist_ok=True)
        with open(os.path.join(workdir, 'rel', name), 'wb') as f:
            f.write(fw)
        with open(path, 'wb') as f:
            f.write(b'\xa5' * (len(fw) + 7))
        if not os.path.lexists(os.path.join(workdir, 'latest')):
            os.symlink(os.path.join('rel', 'out'), os.path.join(workdir, 'latest'))
        path = os.path.join(workdir, 'latest', '..', name)
    elif symlink:
        with open(os.path.join(workdir, 'firmware-v2.bin'), 'wb') as f:
            f.write(fw)
        os.symlink('firmware-v2.bin', path)
    else:
        with open(path, 'wb') as f:
            f.write(fw)
    old = (dfu.usb, dfu.time, sys.argv)
    dfu.usb = dfusim.FakeUsb(dev if present else None)
    dfu.time = dfusim.FakeTime(clock)
    sys.argv = ['bronzebeard-dfu', device_id, path]
    exit_ = None
    try:
        with env.quiet_stdio() as (o, e):
            try:
                dfu.cli_main()
                exit_ = ('return', 0, '')
            except SystemExit as ex:
                code = ex.code
                if code is None:
                    exit_ = ('exit', 0, '')
                elif isinstance(code, int):
                    exit_ = ('exit', code, '')
                else:
                    exit_ = ('exit', 1, str(code))
            except dfusim.FakeUSBError as ex:
                exit_ = ('usberror', 1, str(ex))
            except AssertionError as ex:
                exit_ = ('assert', 1, 'AssertionError ' + str(ex))
            except Exception as ex:
                exit_ = ('raised', 1, '%s: %s' % (type(ex).__name__, ex))
        out = o.getvalue() + e.getvalue()
    finally:
        dfu.usb, dfu.time, sys.argv = old
    return {'exit': exit_, 'out': out, 'device': dev, 'clock': clock}
