"""Common judge pieces for the refwalk-based program checks (C03, C04, C05, C08, C09)."""
from vlib import env, ir, refwalk, progcheck

asm = None


def get_asm():
    global asm
    if asm is None:
        asm = env.load_asm()
    return asm


def moved_labels(prog, walk):
    """Labels whose final offset differs from the documented pessimistic offset."""
    from vlib.strategies import pess_size
    o, moved = 0, 0
    for it in prog.items:
        if it.kind == 'label' and walk.labels.get(it.name) != o:
            moved += 1
        o += pess_size(it)
    return moved


def judge_walk(prog, res, prop, owned, compress_modes, nontrivial, count_refused=True, c04_rule=False):
    """Assemble prog in the given modes, walk, raise CaseFailure for the first owned discrepancy."""
    a = get_asm()
    src = prog.text()
    if env.chash(src)[0] % 4 == 0:
        src = src.replace('\n', '\r\n')    # one program in four is handed over with CR LF line endings
        res.count('crlf_source')
    res.evaluations += 1
    walks = {}
    for comp in compress_modes:
        r = progcheck.assemble(a, src, comp)
        if r[0] != 'ok':
            res.count('refused' if r[0] == 'refused' else 'raw_exception')
            if prog.expected_ok:
                res.count('expected_ok_refused')
            walks[comp] = None
            continue
        res.count('assembled')
        if prog.expected_ok:
            res.count('expected_ok_assembled')
        w = refwalk.walk(prog.items, r[1], r[2], r[3])
        walks[comp] = (w, r)
    for t in prog.tags:
        res.count('gen:' + t)
    for comp in compress_modes:
        if walks[comp] is None:
            continue
        w, r = walks[comp]
        if w.discs:
            d = w.discs[0]
            if any(sg[2] and sg[0] % 2 for sg in w.seg):
                res.count('unsound_odd_code_offset')   # not a program the strategies emit (minimiser guard)
                continue
            if 'harness' in d.tags:
                raise env.HarnessError('oracle failure: %r\n%s' % (d, src[:2000]))
            hit = d.tags & owned
            if c04_rule and not comp:
                hit = set()   # C04 only speaks about what compression changes
            if c04_rule and comp and walks.get(False):
                wu = walks[False][0]
                if wu.discs and wu.discs[0].item == d.item:
                    hit = set()   # same discrepancy without compression: not compression's doing
            if hit:
                it = prog.items[d.item] if d.item is not None and d.item < len(prog.items) else None
                head = it.mn if it is not None and it.kind == 'insn' else (it.name if it is not None and it.kind == 'pseudo' else (it.kind if it is not None else 'table'))
                sig = '%s:%s:%s' % ('+'.join(sorted(hit)), head, 'c' if comp else 'u')
                what = '%s\n  item: %s\n  compress=%s' % (d.detail, it.render(ir.Style(0)) if it is not None else None, comp)
                raise env.CaseFailure(sig, what, progcheck.case_of(prog, comp))
            res.count('inconclusive_foreign')
        else:
            if nontrivial(prog, w, comp, walks):
                res.nt(env.chash((src, comp)))
            if res.evaluations % 97 == 1:
                res.sample({'compress': comp, 'bytes': len(r[1]), 'source': src[:600]})
    return walks


def check_vacuity(chk):
    c = chk.res.classes
    ok, bad = c.get('expected_ok_assembled', 0), c.get('expected_ok_refused', 0)
    chk.extra['expected_ok_acceptance'] = round(ok / (ok + bad), 4) if ok + bad else None
    if ok + bad >= 20 and ok < 0.5 * (ok + bad):
        raise env.HarnessError('generator vacuity: only %d of %d wide-margin programs were accepted' % (ok, ok + bad))
