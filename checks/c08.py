"""C08 - label arithmetic (%offset, %position, bare labels) uses final addresses."""
from vlib import env, progcheck, strategies as S
from checks import _prog

PROP = 'C08'
OWNED = {'label_value'}
PROFILE = S.profile(w_labelval=14, w_li=6, w_data=5, w_align=2, w_calltail=2, w_group=2, w_branch=2, w_upper=4,
                    w_sys=0, n_labels=(2, 7), far=True, p_big_align=0.15)
N = {'quick': 2400, 'thorough': 240000}


def nontrivial(prog, w, comp, walks):
    return ('labelval' in prog.tags or 'li_label' in prog.tags) and _prog.moved_labels(prog, w) > 0


def judge(prog, res):
    _prog.judge_walk(prog, res, PROP, OWNED, (False, True), nontrivial)


def run(tier):
    chk = env.Check(PROP, tier)
    chk.rule = ('Hypothesis IR programs (profile label-values: %offset(L), %position(L, base), bare L and %hi/%lo of '
                'them in I/S/U immediates, li, dw/dd, pack; labels before/after, across aligns, compressible code and '
                'shrinking pseudo-instructions), both compression modes; refwalk recomputes every label-dependent value '
                'from the final offsets found by walking the output. non-trivial = assembled program with a '
                'label-dependent value in which a label ends at an offset different from its pessimistic one; '
                'distinct by (source, mode)')
    progcheck.run_sharded(chk, PROP, PROFILE, N[tier], 'judge', __name__)
    _prog.check_vacuity(chk)
    chk.assumptions = ['rvref decoder/executor', 'refused programs are outside the property (counted)']
    return chk.finish()


def replay(path):
    return progcheck.replay_program(path, judge)
