"""C13 - documented spelling variants of the same program assemble to identical bytes."""
from hypothesis import strategies as st

from vlib import env, ir, progcheck, strategies as S
from checks import _prog

PROP = 'C13'
PROFILE = S.profile(w_labelval=3, w_data=4, w_align=2, w_cinsn=3, w_sys=3, p_const_operand=0.2, p_alias=0.15,
                    n_items=(2, 30), far=False)
N = {'quick': 2400, 'thorough': 160000}
KINDS = ['sep', 'blank', 'comment', 'indent', 'reg', 'intbase', 'baseoff']


@st.composite
def cases(draw):
    prog = draw(S.programs(PROFILE))
    seeds = [draw(st.integers(1, 2 ** 32)) for _ in range(4)]
    return prog, seeds, draw(st.booleans())


def outcome(a, src, comp):
    r = progcheck.assemble(a, src, comp)
    if r[0] == 'ok':
        return ('ok', r[1], r[2])
    return ('refused', None, None)


def judge(case, res):
    prog, seeds, comp = case
    a = _prog.get_asm()
    base_src = prog.text(ir.Style(0))
    base = outcome(a, base_src, comp)
    res.evaluations += 1
    res.count('base_' + base[0])
    for sd in seeds:
        st_ = ir.Style(sd)
        src = prog.text(st_)
        got = outcome(a, src, comp)
        res.evaluations += 1
        used = sorted(st_.used)
        for k in used:
            res.count('rewrite:' + k)
        why = None
        if got[0] != base[0]:
            why = 'canonical spelling is %s but the variant is %s' % (base[0], got[0])
        elif got[0] == 'ok' and got[1] != base[1]:
            n = next(i for i in range(min(len(got[1]), len(base[1])) + 1) if got[1][i:i + 1] != base[1][i:i + 1])
            why = 'bytes differ from offset %d: canonical %s..., variant %s... (lengths %d / %d)' % (
                n, base[1][n:n + 8].hex(), got[1][n:n + 8].hex(), len(base[1]), len(got[1]))
        elif got[0] == 'ok' and got[2] != base[2]:
            why = 'label tables differ: %r vs %r' % (base[2], got[2])
        if why:
            # find the rewrite kinds that matter: retry with single kinds
            culprit = None
            for k in KINDS:
                s1 = ir.Style(sd, kinds={k})
                o = outcome(a, prog.text(s1), comp)
                if o[0] != base[0] or (o[0] == 'ok' and (o[1] != base[1] or o[2] != base[2])):
                    culprit = k
                    break
            c = progcheck.case_of(prog, comp, {'style_seed': sd, 'kinds': [culprit] if culprit else None, 'variant': src})
            raise env.CaseFailure('variant:%s' % (culprit or '+'.join(used)), why + '\n--- canonical\n%s--- variant\n%s' % (base_src[:700], src[:700]), c)
        if len(used) >= 3 and got[0] == 'ok':
            res.nt(env.chash((src, comp)))
    if res.evaluations % 50 < 5:
        res.sample({'variant': prog.text(ir.Style(seeds[0]))[:500]})


def shard(n, s):
    res = env.Result()
    known = env.load_known()

    def body(case, r):
        judge(case, r)

    env.run_hypothesis(body, cases(), n, env.derive(env.seed_value(), PROP, s), res, known, PROP, shrink=False)
    for f in res.failures:
        case = f['case']
        items = progcheck.unpack_items(case['ir'])
        sd, comp, kinds = case['style_seed'], case['compress'], case.get('kinds')

        def still(cand, sig=f['sig']):
            try:
                judge_one(cand, sd, comp, kinds)
            except env.CaseFailure:
                return True
            return False

        small = progcheck.minimise(items, still, budget=150)
        try:
            judge_one(small, sd, comp, kinds)
        except env.CaseFailure as cf:
            f['case'], f['what'] = cf.case, cf.what
    return res


def judge_one(items, sd, comp, kinds):
    prog = S.Program(items, [], True)
    a = _prog.get_asm()
    base = outcome(a, prog.text(ir.Style(0)), comp)
    st_ = ir.Style(sd, kinds=set(kinds) if kinds else None)
    src = prog.text(st_)
    got = outcome(a, src, comp)
    if got[0] != base[0] or (got[0] == 'ok' and (got[1] != base[1] or got[2] != base[2])):
        raise env.CaseFailure('variant', 'canonical %s (%s) vs variant %s (%s)\n--- canonical\n%s--- variant\n%s' % (
            base[0], base[1].hex()[:64] if base[1] else None, got[0], got[1].hex()[:64] if got[1] else None,
            prog.text(ir.Style(0))[:700], src[:700]),
            progcheck.case_of(prog, comp, {'style_seed': sd, 'kinds': kinds, 'variant': src}))


def run(tier):
    chk = env.Check(PROP, tier)
    chk.rule = ('Hypothesis IR programs rendered canonically and in 4 drawn styles (separators comma/blank/tab, blank lines, whole-'
                'line and trailing comments, indentation, register as number/xN/ABI alias, integers decimal/hex/binary, imm(reg) '
                'vs reg, imm; each choice independent per line and operand, never on lines where the docs exclude it), both '
                'compression modes; bytes, label table and outcome class must equal the canonical rendering. non-trivial = '
                'accepted variant that differs from the canonical text in >= 3 rewrite kinds; distinct by (variant text, mode)')
    per = max(1, N[tier] // 5 // env.NPROC)
    chk.merge(env.run_shards(shard, [(per, s) for s in range(env.NPROC)]))
    return chk.finish()


def replay(path):
    import json
    with open(path) as f:
        body = json.load(f)
    case = body['case']
    try:
        judge_one(progcheck.unpack_items(case['ir']), case['style_seed'], case['compress'], case.get('kinds'))
    except env.CaseFailure as cf:
        print('VIOLATION property=%s replay=%s' % (PROP, path))
        print('  ' + str(cf.what)[:1200])
        return env.EXIT_VIOLATION
    print('replay holds: %s' % path)
    return env.EXIT_OK
