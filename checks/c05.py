"""C05 - pseudo-instructions have exactly the effect the instruction reference documents."""
import itertools
import json

from hypothesis import strategies as st

from vlib import env, ir, progcheck, refwalk, rvref, strategies as S
from checks import _prog

PROP = 'C05'
OWNED = {'pseudo_effect'}
PROFILE = S.profile(w_pseudo=10, w_li=10, w_calltail=6, w_branch=6, w_jal=4, w_group=4, w_alu=2, w_imm=3, w_shift=1,
                    w_load=1, w_store=1, w_upper=1, w_sys=0, w_data=1, w_align=1, w_labelval=0, n_items=(2, 30))
N = {'quick': 1600, 'thorough': 160000}

TWO = ['mv', 'not', 'neg', 'seqz', 'snez', 'sltz', 'sgtz']
BR1 = ['beqz', 'bnez', 'blez', 'bgez', 'bltz', 'bgtz']
BR2 = ['bgt', 'ble', 'bgtu', 'bleu']
ALL27 = ['nop', 'li'] + TWO + BR1 + BR2 + ['j', 'jal', 'jr', 'jalr', 'ret', 'call', 'tail', 'fence']
assert len(ALL27) == 27


def nontrivial(prog, w, comp, walks):
    return any(it.kind == 'pseudo' and (it.name not in ('nop', 'fence')) for it in prog.items)


def judge(prog, res):
    _prog.judge_walk(prog, res, PROP, OWNED, (False, True), nontrivial)
    for it in prog.items:
        if it.kind == 'pseudo':
            res.count('pseudo:' + it.name)


# ---- systematic part: every pseudo x register choices, and li over the value space -------------------

LI_UPPERS = [0, 1, 2, 0x3ffff, 0x40000, 0x7fffe, 0x7ffff, 0x80000, 0x80001, 0xffffe, 0xfffff, 0x12345, 0xfffe0,
             0xfffdf, 31, 32, 0x55555, 0xaaaaa]


def _batch_judge(items, res, what):
    """Assemble one batch program in both modes and walk it; report the first owned discrepancy."""
    prog = S.Program(items, ['systematic'], True)
    a = _prog.get_asm()
    src = prog.text()
    for comp in (False, True):
        r = progcheck.assemble(a, src, comp)
        if r[0] != 'ok':
            # a documented pseudo-instruction with legal operands must be accepted: find the culprit line
            e = r[1]
            line = getattr(getattr(e, 'line', None), 'contents', '?')
            res.fail('refused:%s:%s' % (what, 'c' if comp else 'u'),
                     'documented pseudo-instruction refused (%s): %r on line %r' % (type(e).__name__, str(e)[-200:], line),
                     progcheck.case_of(prog, comp))
            continue
        w = refwalk.walk(prog.items, r[1], r[2], r[3])
        if w.discs:
            d = w.discs[0]
            if d.tags & OWNED:
                it = prog.items[d.item] if d.item is not None else None
                one = S.Program([x for x in prog.items if x.kind in ('label', 'const')] + ([it] if it is not None else []), ['systematic'], True)
                res.fail('pseudo_effect:%s:%s' % (it.name if it is not None and it.kind == 'pseudo' else what, 'c' if comp else 'u'),
                         '%s\n  item: %s\n  compress=%s' % (d.detail, it.render(ir.Style(0)) if it is not None else None, comp),
                         progcheck.case_of(prog, comp))


def shard_systematic(kind, lo, hi, tier):
    res = env.Result()
    regs = list(range(32))
    if kind == 'regs':
        # every pseudo with every rd x a register sample for rs (all pairs in thorough)
        names = ALL27[lo:hi]
        for name in names:
            items = [ir.Label('top')]
            if name in TWO:
                pairs = itertools.product(regs, regs) if tier == 'thorough' else \
                    [(a, b) for a in regs for b in (0, 1, 2, 8, 15, 16, 31, a)]
                for a, b in pairs:
                    items.append(ir.Pseudo(name, [ir.Reg(a), ir.Reg(b)]))
                    res.evaluations += 1
                    res.nontrivial_count += 1 if a != 0 else 0
            elif name in BR1:
                for a in regs:
                    for tgt in ('top', 'bot'):
                        items.append(ir.Pseudo(name, [ir.Reg(a), tgt]))
                        res.evaluations += 1
                        res.nontrivial_count += 1
            elif name in BR2:
                pairs = itertools.product(regs, regs) if tier == 'thorough' else \
                    [(a, b) for a in regs for b in (0, 1, 8, 15, 31, a)]
                for a, b in pairs:
                    items.append(ir.Pseudo(name, [ir.Reg(a), ir.Reg(b), 'bot' if (a + b) % 2 else 'top']))
                    res.evaluations += 1
                    res.nontrivial_count += 1
            elif name in ('jr', 'jalr'):
                for a in regs:
                    items.append(ir.Pseudo(name, [ir.Reg(a)]))
                    res.evaluations += 1
                    res.nontrivial_count += 1
            elif name in ('j', 'jal', 'call', 'tail'):
                for tgt in ('top', 'bot'):
                    items.append(ir.Pseudo(name, [tgt]))
                    res.evaluations += 1
                    res.nontrivial_count += 1
            elif name == 'li':
                for a in regs:
                    for v in (0, 1, -1, 2047, -2048, 2048, -2049, 0x12345678, 0xfffff800, 0x7ffff800):
                        items.append(ir.Pseudo('li', [ir.Reg(a), ir.Lit(v)]))
                        res.evaluations += 1
                        res.nontrivial_count += 1 if a else 0
            else:
                items.append(ir.Pseudo(name, []))
                res.evaluations += 1
            items.append(ir.Label('bot'))
            _batch_judge(items, res, name)
            res.sample({'systematic': name, 'lines': len(items)})
    elif kind == 'far':
        # call / tail at every distance class, forwards and backwards: must be accepted and must land
        dists = S.Builder.DIST['call'][lo:hi]
        for d in dists:
            for jit in (-8, -6, -4, -2, 0, 2, 4, 6, 8):
                gap = d + jit
                if gap < 0:
                    continue
                for name in ('call', 'tail'):
                    for fwd in (True, False):
                        filler = [ir.Insn('addi', {'rd': ir.Reg(8), 'rs1': ir.Reg(8), 'imm': ir.Lit(1)})] if (gap // 2) % 2 else []
                        if fwd:
                            items = [ir.Pseudo(name, ['far_away'])] + filler + ([ir.Gap(gap)] if gap else []) + [ir.Label('far_away'), ir.Pseudo('nop', [])]
                        else:
                            items = [ir.Label('far_away')] + ([ir.Gap(gap)] if gap else []) + filler + [ir.Pseudo(name, ['far_away'])]
                        res.evaluations += 1
                        res.nontrivial_count += 1
                        _batch_judge(items, res, name)
            res.sample({'far': 'call/tail', 'distance class': d, 'jitter': '-8..8 step 2', 'directions': 'both'})
    elif kind == 'preset':
        # call / tail to an absolute address given as a CONSTANT (e.g. a ROM routine): all residues of the distance modulo 4096
        # at a few upper parts, from offsets 0/2/4/6.  (Labels preset through the labels= argument are NOT used for this: the
        # assembler treats them as program labels and moves them when earlier items shrink - undocumented territory.)
        a = _prog.get_asm()
        uppers = [0x20000000, 0x00200000, 0x7ffff000, 0x00100000][lo:hi]
        for up in uppers:
            for r in range(0, 4096, 2 if tier == 'thorough' else 6):
                target = up + r
                for name in ('call', 'tail'):
                    for pre in ((), ('c.nop',), ('nop',), ('nop', 'c.nop')):
                        for comp in (False, True):
                            src = 'ext_target = 0x%x\n' % target + ''.join(p + '\n' for p in pre) + '%s ext_target\n' % name
                            res.evaluations += 1
                            res.nontrivial_count += 1
                            try:
                                out = bytes(a.assemble(src, compress=comp))
                            except Exception as e:
                                res.count('constant_target_refused')   # whether a constant may be a call target is not documented
                                continue
                            items = [ir.Insn('c.nop', {}) if p == 'c.nop' else ir.Pseudo('nop', []) for p in pre] + [ir.Pseudo(name, ['ext_target'])]
                            w, _ = refwalk._segment(items, out, {})
                            if not w.complete:
                                res.fail('pseudo_effect:%s:preset' % name, 'output of %r does not segment' % src, {'kind': 'preset', 'source': src, 'target': target, 'compress': comp})
                                continue
                            off, sz, insns = w.seg[-1]
                            ctx = ir.Ctx({}, {'ext_target': target}, off)
                            why = refwalk.check_pseudo(items[-1], insns, off, off + sz, ctx) if all(x[5] is not None for x in insns) else 'undecodable expansion'
                            if why:
                                res.fail('pseudo_effect:%s:preset:%s' % (name, 'c' if comp else 'u'), '%s at offset %d to the constant address 0x%x: %s; expansion %r' % (
                                    name, off, target, why, [x[5] for x in insns]), {'kind': 'preset', 'source': src, 'target': target, 'compress': comp})
            res.sample({'preset label': hex(up), 'residues': 'all even residues mod 4096' if tier == 'thorough' else 'every 6th', 'from offsets': [0, 2, 4, 6]})
    else:
        # li value space: low 13 bits complete x upper parts [lo, hi)
        ups = LI_UPPERS[lo:hi]
        for up in ups:
            for chunk in range(0, 8192, 2048):
                items = []
                for low in range(chunk, chunk + 2048):
                    v = (up << 12) + low
                    if v > 0xffffffff:
                        continue
                    spell = v - (1 << 32) if (v >> 31) and (low & 1) else v
                    rd = (5, 8, 10, 15, 31, 1, 2, 0)[low % 8]
                    items.append(ir.Pseudo('li', [ir.Reg(rd), ir.Lit(spell)]))
                    res.evaluations += 1
                    res.nontrivial_count += 1 if rd else 0
                if items:
                    _batch_judge(items, res, 'li')
            res.sample({'li upper part': hex(up), 'low': 'all 8192 low parts, both spellings alternate'})
    return res


CASE_PROGRAMS = ['%s a0, 0x12345678\nj end\nnop\nend:\nnop\n', 'start:\nnop\n%s a1, 2048\nbeqz a1, end\naddi a1, a1, 1\nend:\nret\n',
                 'f:\nret\n%s f\nj end\nnop\nend:\nnop\n', '%s end\nnop\nj end\nnop\nend:\nnop\n',
                 '%s a0, a1\n%s a2, 0x12345678\nj end\nnop\nend:\nnop\n']
CASE_NAMES = {0: ['li'], 1: ['li'], 2: ['call', 'tail'], 3: ['call', 'tail', 'j', 'jal'], 4: ['mv', 'not', 'neg', 'seqz']}


def _case_pair(a, lower, spelled, comp):
    got = []
    for src in (lower, spelled):
        labels = {}
        try:
            got.append(('ok', bytes(a.assemble(src, compress=comp, labels=labels)), dict(labels)))
        except Exception as e:
            got.append(('refused', type(e).__name__, str(e)[-120:]))
    return got


def case_job(tier):
    """Mnemonics are case-insensitive: a pseudo-instruction written in upper or mixed case has the effect of the lower-case
    spelling - same bytes and label table (its size in the first layout included), both compression modes."""
    a = _prog.get_asm()
    res = env.Result()
    for k, tpl in enumerate(CASE_PROGRAMS):
        for name in CASE_NAMES[k]:
            n = tpl.count('%s')
            second = ('li',) if n == 2 else ()
            lower = tpl % ((name,) + second)
            if _case_pair(a, lower, lower, False)[0][0] != 'ok':
                res.count('case_program_out_of_scope')
                continue
            for style in (str.upper, str.capitalize, str.swapcase):
                for comp in (False, True):
                    spelled = tpl % ((style(name),) + tuple(style(x) for x in second))
                    res.evaluations += 1
                    res.nontrivial_count += 1
                    x, y = _case_pair(a, lower, spelled, comp)
                    if x != y:
                        res.fail('case:%s' % name, '%r (compress=%s) gives %r, the lower-case spelling %r' % (spelled, comp, y[:2], x[:2]),
                                 {'kind': 'case', 'lower': lower, 'spelled': spelled, 'compress': comp})
    if res.evaluations < 40:
        raise env.HarnessError('case_job: its own lower-case programs are refused')
    res.sample({'case_programs': len(CASE_PROGRAMS), 'example': CASE_PROGRAMS[0] % 'LI'})
    return res


def run(tier):
    chk = env.Check(PROP, tier)
    chk.rule = ('(1) systematic: all 27 pseudo-instructions x every register for rd (x rs sample; all pairs in '
                'thorough) and li over low-13-bits-complete x %d upper parts, both spellings, call/tail at each of the call distance classes '
                '(0 .. 1 MiB + 8 KiB) +-8 bytes forwards and backwards (must be accepted and land), both compression modes; '
                '(1b) li/call/tail/j/jal/mv/not/neg/seqz in upper, capitalised and swapped case in 5 small programs with a label behind them == the lower-case spelling (bytes, labels); (2) Hypothesis IR programs (profile pseudo: pseudo-instructions among compressible code, targets at '
                'all distance classes). Each expansion is executed by rvref.step from 14 register files and compared '
                'with the documented function (registers, next pc, link, scratch, events). non-trivial = pseudo with '
                'rd != x0 or a control transfer (systematic: counted per instance, all distinct by construction; '
                'programs: distinct by (source, mode))' % (len(LI_UPPERS) if tier == 'thorough' else 6))
    jobs = [('regs', i, i + 1, tier) for i in range(len(ALL27))]
    ups = len(LI_UPPERS) if tier == 'thorough' else 6
    jobs += [('li', i, i + 1, tier) for i in range(ups)]
    nd = len(S.Builder.DIST['call'])
    jobs += [('far', i, i + 1, tier) for i in range(nd)]
    jobs += [('preset', i, i + 1, tier) for i in range(4)]
    progcheck.run_sharded(chk, PROP, PROFILE, N[tier], 'judge', __name__)     # (first, so that its samples are kept)
    chk.merge(env.run_shards(shard_systematic, jobs))
    chk.merge(env.run_shards(case_job, [(tier,)]))
    _prog.check_vacuity(chk)
    chk.assumptions = ['rvref.step is the execution semantics', 'documented effect table transcribed from docs/instruction_reference.rst']
    return chk.finish()


def replay(path):
    with open(path) as f:
        body = json.load(f)
    c = body['case']
    if c.get('kind') == 'case':
        x, y = _case_pair(_prog.get_asm(), c['lower'], c['spelled'], c['compress'])
        if x != y:
            print('VIOLATION property=%s replay=%s' % (PROP, path))
            return env.EXIT_VIOLATION
        print('replay holds: %s' % path)
        return env.EXIT_OK
    if c.get('kind') == 'preset':
        r = env.Result()
        a = _prog.get_asm()
        try:
            out = bytes(a.assemble(c['source'], compress=c['compress']))
        except Exception as e:
            print('VIOLATION property=%s replay=%s' % (PROP, path))
            print('  refused: %s' % e)
            return env.EXIT_VIOLATION
        lines = c['source'].split()
        items = [ir.Insn('c.nop', {}) if p == 'c.nop' else ir.Pseudo('nop', []) for p in c['source'].splitlines()[1:-1]] + [ir.Pseudo(c['source'].splitlines()[-1].split()[0], ['ext_target'])]
        w, _ = refwalk._segment(items, out, {})
        off, sz, insns = w.seg[-1]
        why = refwalk.check_pseudo(items[-1], insns, off, off + sz, ir.Ctx({}, {'ext_target': c['target']}, off))
        if why:
            print('VIOLATION property=%s replay=%s' % (PROP, path))
            print('  ' + why)
            return env.EXIT_VIOLATION
        print('replay holds: %s' % path)
        return env.EXIT_OK
    return progcheck.replay_program(path, judge)
