"""C06 - unrepresentable operands are rejected, never truncated; legal ones accepted.

Three-valued oracle written from the ISA manual and docs/instruction_reference.rst:
    ACCEPT  inside the documented operand set     -> must return exactly rvref's encoding
    REFUSE  not representable / reserved zero      -> must raise (ValueError through the API)
    EITHER  representable but not documented       -> if accepted the encoding must still be the right one
"""
import itertools
import json
import struct

from vlib import apimap, env, rvref
from checks import c01

PROP = 'C06'
ACCEPT, REFUSE, EITHER = 'accept', 'refuse', 'either'

BAD_REGS = [-2, -1, 32, 33, 40, 'x32', 'x-1', 'foo', 'x', '32', 'r5']
OK_REG_SPELLINGS = {5: ['x5', 't0', '5'], 8: ['x8', 's0', 'fp', '8'], 31: ['x31', 't6', '31'], 0: ['x0', 'zero', '0']}


def wide(lo, hi, mult=1):
    span = hi - lo + mult
    vals = set(range(lo - 2 * span, hi + 2 * span + 1)) if span <= 8300 else set()
    if span > 8300:
        for c in (lo, hi, 0):
            vals |= set(range(c - 70, c + 71))
        vals |= set(range(lo - 2 * span, hi + 2 * span, max(1, span // 997)))
    for k in range(1, 34):
        for d in (-1, 0, 1):
            vals.add((1 << k) + d)
            vals.add(-(1 << k) + d)
    return sorted(vals)


def classify32(mn, field, v):
    """Class of value v for one operand of a 32-bit mnemonic (other operands legal)."""
    fmt = rvref.fmt_of(mn)
    if field in ('rd', 'rs1', 'rs2') and not (fmt == 'CSR' and field == 'rs1' and mn.endswith('i')):
        return ACCEPT if 0 <= v <= 31 else REFUSE
    if fmt == 'CSR' and field == 'rs1':
        return ACCEPT if 0 <= v <= 31 else REFUSE
    if field == 'shamt':
        return ACCEPT if 0 <= v <= 31 else REFUSE
    if field in ('succ', 'pred'):
        return ACCEPT if 0 <= v <= 15 else REFUSE
    if field in ('aq', 'rl'):
        return ACCEPT if v in (0, 1) else REFUSE
    if field == 'csr':
        if 0 <= v <= 0x7ff:
            return ACCEPT
        if 0x800 <= v <= 0xfff or -2048 <= v < 0:
            return EITHER
        return REFUSE
    if fmt in ('I', 'S'):
        if not -2048 <= v <= 2047:
            return REFUSE
        if mn == 'jalr' and v % 2:
            return EITHER
        return ACCEPT
    if fmt == 'B':
        return ACCEPT if (-4096 <= v <= 4094 and v % 2 == 0) else REFUSE
    if fmt == 'U':
        return ACCEPT if -0x80000 <= v <= 0xfffff else REFUSE
    if fmt == 'J':
        return ACCEPT if (-(1 << 20) <= v <= (1 << 20) - 2 and v % 2 == 0) else REFUSE
    raise AssertionError((mn, field))


def window32(mn, field):
    fmt = rvref.fmt_of(mn)
    if field in ('rd', 'rs1', 'rs2'):
        return list(range(-2, 41))
    if field == 'shamt':
        return list(range(-40, 71))
    if field in ('succ', 'pred'):
        return list(range(-2, 21))
    if field in ('aq', 'rl'):
        return [-1, 0, 1, 2, 3]
    if field == 'csr':
        return wide(0, 4095)
    if fmt in ('I', 'S'):
        return wide(-2048, 2047)
    if fmt == 'B':
        return wide(-4096, 4095)
    if fmt == 'U':
        return wide(-0x80000, 0xfffff)
    if fmt == 'J':
        return wide(-(1 << 20), (1 << 20) - 1)
    raise AssertionError((mn, field))


def legal_others(mn, field, k):
    """k-th choice of legal values for the other operands."""
    dom = c01.domains(mn)
    out = {}
    for f, d in dom.items():
        if f == field:
            continue
        if f == 'csr':
            out[f] = [0x300, 0, 0x7ff][k % 3]
            continue
        if len(d) <= 64:
            out[f] = d[[0, len(d) - 1, len(d) // 3][k % 3]]
        else:
            out[f] = [d[len(d) // 2], d[0], d[-1]][k % 3]
    return out


def expected32(mn, f):
    g = dict(f)
    if 'csr' in g:
        g['csr'] &= 0xfff
    return c01.expected_word(mn, g)


def job32(mn):
    asm = env.load_asm()
    res = env.Result()
    names = apimap.api_fields(mn)
    for field in names:
        for k in range(3):
            others = legal_others(mn, field, k)
            for v in window32(mn, field):
                f = dict(others)
                f[field] = v
                cls = classify32(mn, field, v)
                res.evaluations += 1
                try:
                    got = apimap.call_encoder(asm, mn, f)
                    ok = True
                except Exception:   # any exception is a refusal (today always ValueError)
                    ok = False
                near = _near_edge32(mn, field, v)
                if cls == REFUSE and ok:
                    res.fail('accepts:%s:%s' % (mn, field), '%s with %s=%r is not representable but is encoded as 0x%08x (%r)'
                             % (mn, field, v, got, rvref.dec32(got & 0xffffffff) if isinstance(got, int) else None),
                             {'kind': 'api', 'mn': mn, 'fields': f, 'expect': cls})
                elif cls == ACCEPT and not ok:
                    res.fail('refuses:%s:%s' % (mn, field), '%s with %s=%r is inside the documented range but is refused' % (mn, field, v),
                             {'kind': 'api', 'mn': mn, 'fields': f, 'expect': cls})
                elif ok and cls in (ACCEPT, EITHER) and got != expected32(mn, f):
                    res.fail('wrong:%s:%s' % (mn, field), '%s %r accepted but encoded as 0x%08x, specification gives 0x%08x' % (mn, f, got, expected32(mn, f)),
                             {'kind': 'api', 'mn': mn, 'fields': f, 'expect': cls})
                if near:
                    res.nontrivial_count += 1
        # register spellings (documented: number, xN name, ABI alias)
        if field in ('rd', 'rs1', 'rs2') and not (rvref.fmt_of(mn) == 'CSR' and field == 'rs1' and mn.endswith('i')):
            others = legal_others(mn, field, 0)
            for n, spells in OK_REG_SPELLINGS.items():
                for sp in spells:
                    f = dict(others)
                    f[field] = sp
                    res.evaluations += 1
                    res.nontrivial_count += 1
                    try:
                        got = apimap.call_encoder(asm, mn, f)
                        g = dict(f)
                        g[field] = n
                        if got != expected32(mn, g):
                            res.fail('wrongreg:%s:%s' % (mn, field), '%s %r encoded as 0x%08x' % (mn, f, got), {'kind': 'api', 'mn': mn, 'fields': f, 'expect': ACCEPT})
                    except Exception:   # any exception is a refusal (today always ValueError)
                        res.fail('refuses:%s:%s' % (mn, field), '%s refuses documented register spelling %r' % (mn, sp), {'kind': 'api', 'mn': mn, 'fields': f, 'expect': ACCEPT})
            for bad in BAD_REGS:
                f = dict(others)
                f[field] = bad
                res.evaluations += 1
                res.nontrivial_count += 1
                try:
                    got = apimap.call_encoder(asm, mn, f)
                    res.fail('accepts:%s:%s' % (mn, field), '%s accepts register %r and encodes 0x%08x' % (mn, bad, got), {'kind': 'api', 'mn': mn, 'fields': f, 'expect': REFUSE})
                except Exception:   # any exception is a refusal (today always ValueError)
                    pass
    res.sample({'mnemonic': mn, 'probed_fields': list(names)})
    return res


def _near_edge32(mn, field, v):
    fmt = rvref.fmt_of(mn)
    edges = {'rd': (0, 31), 'rs1': (0, 31), 'rs2': (0, 31), 'shamt': (0, 31), 'succ': (0, 15), 'pred': (0, 15), 'aq': (0, 1), 'rl': (0, 1),
             'csr': (0, 4095)}
    if field in edges:
        lo, hi = edges[field]
        step = 1
    elif fmt in ('I', 'S'):
        lo, hi, step = -2048, 2047, 2 if mn == 'jalr' else 1
    elif fmt == 'B':
        lo, hi, step = -4096, 4094, 2
    elif fmt == 'U':
        lo, hi, step = -0x80000, 0xfffff, 1
    else:
        lo, hi, step = -(1 << 20), (1 << 20) - 2, 2
    return abs(v - lo) <= 2 * step or abs(v - hi) <= 2 * step


def classify16(mn, f):
    """ACCEPT / REFUSE / EITHER for a full c.* operand tuple."""
    if rvref.legal_c(mn, f):
        return ACCEPT
    if mn == 'c.lui' and isinstance(f.get('imm'), int) and 0xfffe0 <= f['imm'] <= 0xfffff:
        g = dict(f)
        g['imm'] -= 1 << 20
        if rvref.legal_c(mn, g):
            return EITHER
    return REFUSE


def job16(mn):
    asm = env.load_asm()
    res = env.Result()
    names = rvref.C_OPERANDS[mn]
    regnames = [n for n in names if n != 'imm']
    has_imm = 'imm' in names
    if has_imm:
        lo, hi, mult = rvref.C_IMM_RANGE[mn]
        imms = wide(lo, hi, mult)
        if mn == 'c.lui':
            imms = sorted(set(imms) | set(range(0xfffc0, 0x100010)))
    else:
        imms = [None]
    fn = asm.INSTRUCTIONS[mn]
    regvals = list(range(-2, 41))
    if len(regnames) == 2 and has_imm:
        regvals = [-1, 0, 1, 2, 7, 8, 9, 12, 15, 16, 31, 32]
    for regs in itertools.product(regvals, repeat=len(regnames)):
        for imm in imms:
            f = dict(zip(regnames, regs))
            if has_imm:
                f['imm'] = imm
            cls = classify16(mn, f)
            res.evaluations += 1
            try:
                got = fn(*[f[k] for k in names])
                ok = True
            except Exception:   # any exception is a refusal (today always ValueError)
                ok = False
            near = has_imm and (abs(imm - lo) <= 2 * mult or abs(imm - hi) <= 2 * mult or abs(imm) <= mult)
            near = near or any(r in (-1, 0, 2, 7, 8, 15, 16, 31, 32) for r in regs)
            if near:
                res.nontrivial_count += 1
            if cls == REFUSE and ok:
                res.fail('accepts:%s' % mn, '%s %r is not a legal RV32C operand tuple but is encoded as 0x%04x (%r)'
                         % (mn, f, got, rvref.dec16(got & 0xffff) if isinstance(got, int) else None), {'kind': 'api', 'mn': mn, 'fields': f, 'expect': cls})
            elif cls == ACCEPT and not ok:
                res.fail('refuses:%s' % mn, '%s %r is a legal RV32C operand tuple but is refused' % (mn, f), {'kind': 'api', 'mn': mn, 'fields': f, 'expect': cls})
            elif ok and cls in (ACCEPT, EITHER):
                g = dict(f)
                if cls == EITHER:
                    g['imm'] -= 1 << 20
                if got != rvref.enc16(mn, g):
                    res.fail('wrong:%s' % mn, '%s %r accepted but encoded as 0x%04x, specification gives 0x%04x' % (mn, f, got, rvref.enc16(mn, g)),
                             {'kind': 'api', 'mn': mn, 'fields': f, 'expect': cls})
    # bad register spellings
    for rn in regnames:
        for bad in BAD_REGS[2:]:
            f = {k: 9 for k in regnames}
            if has_imm:
                f['imm'] = [v for v in (mult * 2, lo) if lo <= v <= hi][0]
            f[rn] = bad
            res.evaluations += 1
            try:
                got = fn(*[f[k] for k in names])
                res.fail('accepts:%s' % mn, '%s accepts register %r (0x%04x)' % (mn, bad, got), {'kind': 'api', 'mn': mn, 'fields': f, 'expect': REFUSE})
            except Exception:   # any exception is a refusal (today always ValueError)
                pass
    res.sample({'mnemonic': mn, 'registers': '-2..40' if regvals[0] == -2 else regvals, 'immediates': len(imms)})
    return res


# ---- text front end: one-line programs, both compression settings -----------------------------------

def text_job(n, shard):
    import random
    asm = env.load_asm()
    res = env.Result()
    rnd = random.Random(env.derive(env.seed_value(), PROP, 'text', shard))
    mns = sorted(rvref.BASE) + list(rvref.C_MNEMONICS)
    for _ in range(n):
        mn = rnd.choice(mns)
        names = apimap.api_fields(mn)
        if not names:
            continue
        field = rnd.choice(names)
        if mn.startswith('c.'):
            regnames = [x for x in names if x != 'imm']
            f = {}
            for rname in regnames:
                f[rname] = rnd.choice([0, 1, 2, 7, 8, 9, 15, 16, 31]) if rnd.randrange(3) else rnd.choice([-1, 32, 40])
            if 'imm' in names:
                lo, hi, mult = rvref.C_IMM_RANGE[mn]
                f['imm'] = rnd.choice([lo - mult, lo, lo + mult, hi - mult, hi, hi + mult, hi + 2 * mult, 0, mult, -mult, lo - 1, hi + 1,
                                        rnd.randrange(lo - 3 * (hi - lo + 1), hi + 3 * (hi - lo + 1))])
                if rnd.randrange(6) == 0:
                    # a legal value plus a multiple of 2^32 (2^64): equal to it in 32-bit (64-bit) arithmetic, not representable
                    f['imm'] = rnd.choice([lo, hi, mult, lo + mult, hi - mult]) + rnd.choice([1 << 32, -(1 << 32), 1 << 33, 1 << 64, -(1 << 64)])
            cls = classify16(mn, f)
            exp = None
            if cls != REFUSE:
                g = dict(f)
                if cls == EITHER:
                    g['imm'] -= 1 << 20
                exp = struct.pack('<H', rvref.enc16(mn, g))
            if any(not 0 <= f[r] <= 31 for r in regnames):
                cls = REFUSE
        else:
            others = legal_others(mn, field, rnd.randrange(3))
            w = window32(mn, field)
            v = rnd.choice(w)
            if rnd.randrange(6) == 0:
                legal = [x for x in (w[len(w) // 2], w[len(w) // 2 + 1], 0, 1, 2, 4) if classify32(mn, field, x) == ACCEPT]
                if legal:
                    # a legal value plus a multiple of 2^32 (2^64): equal to it in 32-bit (64-bit) arithmetic, not representable
                    v = rnd.choice(legal) + rnd.choice([1 << 32, -(1 << 32), 1 << 33, 1 << 64, -(1 << 64)])
            f = dict(others)
            f[field] = v
            cls = classify32(mn, field, v)
            exp = struct.pack('<I', expected32(mn, f)) if cls != REFUSE else None
        parts = []
        for nm in names:
            x = f[nm]
            isreg = nm in ('rd', 'rs1', 'rs2', 'rd_rs1') and not (not mn.startswith('c.') and rvref.fmt_of(mn) == 'CSR' and nm == 'rs1' and mn.endswith('i'))
            parts.append(('x%d' % x) if isreg else str(x))
        line = mn + ' ' + ', '.join(parts)
        if mn in ('lb', 'lh', 'lw', 'lbu', 'lhu', 'jalr', 'sb', 'sh', 'sw', 'c.lw', 'c.sw') and rnd.randrange(2) and len(parts) == 3:
            # the imm(reg) spelling of base+offset instructions: the same operand rules apply
            d3 = dict(zip(names, parts))
            first = d3.get('rd', d3.get('rs2'))
            line = '%s %s, %s(%s)' % (mn, first, d3['imm'], d3['rs1'])
        for comp in (False, True):
            res.evaluations += 1
            try:
                out = bytes(asm.assemble(line + '\n', compress=comp))
                ok = True
            except Exception:
                ok = False
            if cls == REFUSE and ok:
                res.fail('text:accepts:%s' % mn, 'line %r (compress=%s) has an unrepresentable operand but assembles to %s' % (line, comp, out.hex()),
                         {'kind': 'text', 'source': line + '\n', 'compress': comp, 'expect': cls, 'bytes': None})
            elif cls == ACCEPT and not ok:
                res.fail('text:refuses:%s' % mn, 'line %r (compress=%s) is within the documented operand ranges but is refused' % (line, comp),
                         {'kind': 'text', 'source': line + '\n', 'compress': comp, 'expect': cls, 'bytes': None})
            elif ok and not comp and out != exp:
                res.fail('text:wrong:%s' % mn, 'line %r assembles to %s, specification gives %s' % (line, out.hex(), exp.hex()),
                         {'kind': 'text', 'source': line + '\n', 'compress': comp, 'expect': cls, 'bytes': exp.hex()})
            res.nt(env.chash((line, comp)))
        if res.evaluations % 2000 < 2:
            res.sample({'text_probe': line, 'class': cls})
    return res


# ---- text front end with -c: documented operands must stay accepted when the compressor looks at them -----------

COMP_CONFIGS = {
    # mnemonic: list of register settings that make the instruction a compression candidate
    'addi': [{'rd': 2, 'rs1': 2}, {'rd': 8, 'rs1': 2}, {'rd': 15, 'rs1': 2}, {'rd': 5, 'rs1': 5}, {'rd': 9, 'rs1': 0}, {'rd': 5, 'rs1': 6}, {'rd': 0, 'rs1': 0}],
    'andi': [{'rd': 8, 'rs1': 8}, {'rd': 15, 'rs1': 15}],
    'lw': [{'rd': 8, 'rs1': 9}, {'rd': 15, 'rs1': 15}, {'rd': 5, 'rs1': 2}, {'rd': 31, 'rs1': 2}],
    'sw': [{'rs1': 8, 'rs2': 9}, {'rs1': 15, 'rs2': 15}, {'rs1': 2, 'rs2': 5}, {'rs1': 2, 'rs2': 0}],
    'lui': [{'rd': 5}, {'rd': 1}, {'rd': 31}],
    'jal': [{'rd': 0}, {'rd': 1}],
    'beq': [{'rs1': 8, 'rs2': 0}, {'rs1': 15, 'rs2': 0}],
    'bne': [{'rs1': 8, 'rs2': 0}, {'rs1': 15, 'rs2': 0}],
    'jalr': [{'rd': 0, 'rs1': 5}, {'rd': 1, 'rs1': 5}],
    'slli': [{'rd': 5, 'rs1': 5}], 'srli': [{'rd': 8, 'rs1': 8}], 'srai': [{'rd': 15, 'rs1': 15}],
}


def compress_text_job(mn):
    asm = env.load_asm()
    res = env.Result()
    field = 'shamt' if mn in ('slli', 'srli', 'srai') else 'imm'
    if mn == 'lui':
        window = list(range(-80, 81)) + list(range(0xfffa0, 0x100010)) + [0x7ffff, 0x80000, -0x80000, -0x80001, 0x100000]
    elif mn == 'jal':
        window = list(range(-2100, 2101)) + [-(1 << 20), (1 << 20) - 2, 1 << 20]
    elif mn in ('beq', 'bne'):
        window = list(range(-300, 301)) + [-4096, 4094, 4096, -4098]
    elif field == 'shamt':
        window = list(range(-2, 35))
    else:
        window = list(range(-1100, 1101)) + [-2048, 2047, 2048, -2049]
    names = apimap.api_fields(mn)
    for regs in COMP_CONFIGS[mn]:
        for v in window:
            f = dict(regs)
            f[field] = v
            cls = classify32(mn, field, v)
            parts = [('x%d' % f[n]) if n in ('rd', 'rs1', 'rs2') else str(f[n]) for n in names]
            line = mn + ' ' + ', '.join(parts)
            res.evaluations += 1
            try:
                out = bytes(asm.assemble(line + '\n', compress=True))
                ok = True
            except Exception as e:
                ok, err = False, e
            if cls == ACCEPT and not ok:
                res.fail('text:refuses_with_c:%s' % mn, 'line %r is within the documented operand ranges but is refused with -c: %s' % (line, str(err)[-120:]),
                         {'kind': 'text', 'source': line + '\n', 'compress': True, 'expect': cls, 'bytes': None})
            elif cls == REFUSE and ok:
                res.fail('text:accepts:%s' % mn, 'line %r (compress=True) has an unrepresentable operand but assembles to %s' % (line, out.hex()),
                         {'kind': 'text', 'source': line + '\n', 'compress': True, 'expect': cls, 'bytes': None})
            elif ok and len(out) == 4 and cls == ACCEPT and out != struct.pack('<I', expected32(mn, f)):
                res.fail('text:wrong:%s' % mn, 'line %r (compress=True, not compressed) assembles to %s, specification gives %08x' % (line, out.hex(), expected32(mn, f)),
                         {'kind': 'text', 'source': line + '\n', 'compress': True, 'expect': cls, 'bytes': struct.pack('<I', expected32(mn, f)).hex()})
            if ok and len(out) == 2:
                res.nontrivial_count += 1
    res.sample({'compress_text_probe': mn, 'register settings': COMP_CONFIGS[mn], 'values': len(window)})
    return res


def odd_label_job():
    """A transfer to a LABEL that lies an odd number of bytes away is not representable either (offsets are multiples of 2):
    it must be refused, never rounded.  (The program generators never put code at odd addresses, so this is probed here.)"""
    asm = env.load_asm()
    res = env.Result()
    forms = ['beq x5, x6, L_odd', 'bne x8, x0, L_odd', 'bltu x5, x6, L_odd', 'jal x1, L_odd', 'jal x0, L_odd', 'j L_odd', 'jal L_odd', 'call L_odd',
             'tail L_odd', 'beqz x8, L_odd', 'bgt x5, x6, L_odd', 'c.j %offset(L_odd)', 'c.jal %offset(L_odd)', 'c.beqz x8, %offset(L_odd)',
             'c.bnez x9, %offset(L_odd)']
    for form in forms:
        for nbytes in (1, 3, 5, 7, 21, 127, 251):
            for fwd in (True, False):
                filler = 'bytes ' + ' '.join(['7'] * nbytes)
                src = (form + '\n' + filler + '\nL_odd:\n') if fwd else ('L_odd:\n' + filler + '\n' + form + '\n')
                for comp in (False, True):
                    res.evaluations += 1
                    res.nontrivial_count += 1
                    try:
                        out = bytes(asm.assemble(src, compress=comp))
                    except Exception:
                        continue
                    res.fail('odd_label:%s' % form.split()[0], '%r with its label an odd number of bytes away (%d data bytes in between, compress=%s) is not refused: %s'
                             % (form, nbytes, comp, out[:8].hex() if fwd else out[-8:].hex()), {'kind': 'text', 'source': src, 'compress': comp, 'expect': REFUSE, 'bytes': None})
    res.sample({'odd_label_probe': forms[0], 'data bytes between': [1, 3, 5, 7, 21, 127, 251]})
    return res


def run(tier):
    chk = env.Check(PROP, tier)
    try:
        rvref.selftest()
    except AssertionError as e:
        raise env.HarnessError('rvref self test failed: %r' % (e,))
    for mn in sorted(rvref.BASE):
        c01.contrib_tables(mn) if rvref.fmt_of(mn) not in ('U', 'J') else None
    jobs = [(job32, (mn,)) for mn in sorted(rvref.BASE)] + [(job16, (mn,)) for mn in rvref.C_MNEMONICS]
    jobs += [(compress_text_job, (mn,)) for mn in sorted(COMP_CONFIGS)]
    jobs += [(odd_label_job, ()), (nonint_job, ())]
    jobs += [(opt_job, ('job16', mn)) for mn in rvref.C_MNEMONICS] + [(opt_job, ('job32', mn)) for mn in OPT_BASE]
    chk.merge(env.run_shards(_dispatch, jobs))
    api = chk.res.evaluations
    n_text = {'quick': 20000, 'thorough': 500000}[tier]
    chk.merge(env.run_shards(text_job, [(n_text // env.NPROC, s) for s in range(env.NPROC)]))
    chk.exhaustive = True
    chk.extra['api_probes'] = api
    chk.extra['text_probes'] = chk.res.evaluations - api
    chk.rule = ('API: every operand of all 66 + 27 mnemonics probed over [lo-2*span, hi+2*span] (all residues; for U/J a dense '
                'window round both ends and zero plus a stride) and +-2^k+-1 up to 2^33, registers -2..40 and bad spellings, three '
                'legal settings of the other operands (c.*: full register x immediate product) - complete over that window (all c.* mnemonics and 13 base mnemonics, one per format, again in `python -O` children); text: '
                '%d one-line programs x both compress settings, and every compression-candidate register setting of addi/andi/lw/sw/lui/jal/'
                'beq/bne/jalr/shifts x a dense immediate window with -c (documented operands must stay accepted). non-trivial = probe within two scale units of an interval end, or with '
                'an edge/illegal register; API probes distinct by construction, text probes by (line, mode)' % n_text)
    chk.assumptions = ['three-valued table: CSR >= 0x800 / negative CSR spellings, odd jalr offsets and the unsigned c.lui spelling are EITHER']
    return chk.finish()


def _dispatch(fn, args):
    return fn(*args)


def nonint_job():
    """An operand that is not an integer (a float, also an integral one: the docs rule out float results) must be refused wherever a
    number is expected."""
    asm = env.load_asm()
    res = env.Result()
    for expr in ('10 / 5', '6 / 2', '2.0', '1e3', '7 / 2', '1.5', '0.0', '4 / 4 + 1'):
        for tmpl in ('addi x5, x5, %s', 'NI_K = %s\naddi x5, x5, NI_K', 'li x5, %s', 'dw %s', 'lui x5, %s', 'c.li x8, %s', 'slli x5, x5, NI_S\nNI_S = %s', 'pack <I, %s'):
            src = tmpl % expr + '\n'
            for comp in (False, True):
                res.evaluations += 1
                res.nontrivial_count += 1
                try:
                    out = bytes(asm.assemble(src, compress=comp))
                except Exception:
                    continue
                res.fail('text:accepts:nonint', '%r (compress=%s) has a non-integer operand but assembles to %s' % (src, comp, out.hex()), {'kind': 'text', 'source': src, 'compress': comp, 'expect': REFUSE, 'bytes': None})
    return res


OPT_BASE = ['addi', 'lw', 'sw', 'beq', 'lui', 'jal', 'jalr', 'slli', 'csrrwi', 'fence', 'amoadd.w', 'lr.w', 'add']


def opt_job(fname, mn):
    """The same API probes once more in a `python -O` child: validation that lives in assert statements is gone there."""
    r = env.run_optimized('checks.c06', fname, (mn,))
    r.samples = []
    return r


def replay(path):
    with open(path) as f:
        body = json.load(f)
    case = body['case']
    asm = env.load_asm()
    why = None
    exp = case.get('expect')
    if case['kind'] == 'api' and case.get('optimize'):
        r = opt_job('job16' if case['mn'].startswith('c.') else 'job32', case['mn'])
        if r.failures:
            print('VIOLATION property=%s replay=%s' % (PROP, path))
            print('  ' + r.failures[0]['what'][:600])
            return env.EXIT_VIOLATION
        print('replay holds: %s' % path)
        return env.EXIT_OK
    if case['kind'] == 'api':
        mn, f = case['mn'], case['fields']
        try:
            got = apimap.call_encoder(asm, mn, f)
            ok = True
        except Exception:   # any exception is a refusal (today always ValueError)
            ok = False
        if exp == REFUSE and ok:
            why = '%s %r accepted (0x%x)' % (mn, f, got)
        elif exp == ACCEPT and not ok:
            why = '%s %r refused' % (mn, f)
        elif ok and exp in (ACCEPT, EITHER):
            if mn.startswith('c.'):
                g = dict(f)
                if exp == EITHER:
                    g['imm'] -= 1 << 20
                want = rvref.enc16(mn, g)
            else:
                g = dict(f)
                for k, v in list(g.items()):
                    if isinstance(v, str):
                        g[k] = {'x5': 5, 't0': 5, '5': 5, 'x8': 8, 's0': 8, 'fp': 8, '8': 8, 'x31': 31, 't6': 31, '31': 31, 'x0': 0, 'zero': 0, '0': 0}[v]
                want = expected32(mn, g)
            if got != want:
                why = '%s %r encoded as 0x%x, specification gives 0x%x' % (mn, f, got, want)
    else:
        try:
            out = bytes(asm.assemble(case['source'], compress=case['compress']))
            ok = True
        except Exception:
            ok = False
        if exp == REFUSE and ok:
            why = '%r accepted -> %s' % (case['source'], out.hex())
        elif exp == ACCEPT and not ok:
            why = '%r refused' % case['source']
        elif ok and case.get('bytes') and out.hex() != case['bytes']:
            why = '%r -> %s, expected %s' % (case['source'], out.hex(), case['bytes'])
    if why:
        print('VIOLATION property=%s replay=%s' % (PROP, path))
        print('  ' + why)
        return env.EXIT_VIOLATION
    print('replay holds: %s' % path)
    return env.EXIT_OK
