"""C04 - enabling compression never changes what the program means."""
from vlib import env, progcheck, strategies as S
from checks import _prog

PROP = 'C04'
OWNED = {'insn_meaning', 'illegal_rvc', 'transfer_target', 'label_value', 'pseudo_effect', 'data_bytes'}
PROFILE = S.profile(p_compressible=0.8, w_imm=9, w_load=5, w_store=5, w_shift=5, w_alu=6, w_li=5, w_calltail=3,
                    w_group=3, w_labelval=3, w_cinsn=1, n_items=(2, 36))
N = {'quick': 2400, 'thorough': 240000}


def nontrivial(prog, w, comp, walks):
    if not comp or walks.get(False) is None:
        return False
    shorter = len(walks[True][1][1]) < len(walks[False][1][1]) if walks.get(True) else False
    ninsn = sum(1 for it in prog.items if it.kind in ('insn', 'pseudo'))
    return shorter and (ninsn >= 3 or 'labelval' in prog.tags)


def judge(prog, res):
    walks = _prog.judge_walk(prog, res, PROP, OWNED, (False, True), nontrivial, c04_rule=True)
    if walks.get(True) and walks.get(False):
        n = sum(1 for sg in walks[True][0].seg for x in sg[2] if x[1] == 2)
        res.count('compressed_insns', n)


def run(tier):
    chk = env.Check(PROP, tier)
    chk.rule = ('Hypothesis IR programs (profile rvc-edges: operands on and around every RVC operand-set edge, '
                'label-dependent immediates, call/tail/li expansions, >= 2 items), assembled with and without '
                'compression and BOTH judged by refwalk against the same IR; a discrepancy counts only when it is in '
                'the compressed run and not at the same item of the uncompressed run. non-trivial = compressed output '
                'shorter and (>= 3 instructions or a label-dependent operand); distinct by source')
    progcheck.run_sharded(chk, PROP, PROFILE, N[tier], 'judge', __name__)
    _prog.check_vacuity(chk)
    chk.assumptions = ['rvref decoder/executor and RVC legality table']
    return chk.finish()


def replay(path):
    return progcheck.replay_program(path, judge)
