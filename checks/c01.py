"""C01 - 32-bit instructions encode exactly as the RISC-V specification defines (and one-to-one).

(a) encoder API: thorough = the complete operand product of all 66 base mnemonics (exhaustive);
    quick = every operand complete on its own with the others sampled.
(b) text front end: generated one-instruction-per-line programs in random documented spellings.
Oracle: rvref.enc32 (self-tested: dec32(enc32(t)) == t, so word equality == "decodes to the same tuple",
and equality with an injective reference encoding gives one-to-one for free).
"""
import itertools
import json
import struct

from hypothesis import strategies as st

from vlib import apimap, env, ir, rvref

PROP = 'C01'
REGS = list(range(32))


def domains(mn):
    """In-range operand domains per API field (documented ranges; beyond-range is C06's business)."""
    fmt = rvref.fmt_of(mn)
    if fmt == 'R':
        return {'rd': REGS, 'rs1': REGS, 'rs2': REGS}
    if fmt == 'SHIFT':
        return {'rd': REGS, 'rs1': REGS, 'shamt': list(range(32))}
    if fmt == 'I':
        if mn == 'jalr':
            return {'rd': REGS, 'rs1': REGS, 'imm': list(range(-2048, 2048, 2))}
        return {'rd': REGS, 'rs1': REGS, 'imm': list(range(-2048, 2048))}
    if fmt == 'S':
        return {'rs1': REGS, 'rs2': REGS, 'imm': list(range(-2048, 2048))}
    if fmt == 'B':
        return {'rs1': REGS, 'rs2': REGS, 'imm': list(range(-4096, 4096, 2))}
    if fmt == 'U':
        return {'rd': REGS, 'imm': range(-0x80000, 0x100000)}
    if fmt == 'J':
        return {'rd': REGS, 'imm': range(-(1 << 20), 1 << 20, 2)}
    if fmt == 'FENCE':
        return {'succ': list(range(16)), 'pred': list(range(16))}
    if fmt == 'CSR':
        return {'rd': REGS, 'rs1': REGS, 'csr': list(range(0, 4096))}
    if fmt == 'A':
        if mn == 'lr.w':
            return {'rd': REGS, 'rs1': REGS, 'aq': [0, 1], 'rl': [0, 1]}
        return {'rd': REGS, 'rs1': REGS, 'rs2': REGS, 'aq': [0, 1], 'rl': [0, 1]}
    return {}


_TABLES = {}


def contrib_tables(mn):
    """word = base | OR of per-field contributions (fields occupy disjoint bits in rvref.enc32).
    Built from rvref.enc32 by varying one field from the all-zero tuple.  Large immediate domains are
    filled bit-linearly (contribution of a value = OR of the contributions of its set bits modulo the
    field width) and then validated against rvref.enc32 directly on a sample - rvref stays the oracle.
    Cached per process; run() builds every table in the parent before forking."""
    if mn in _TABLES:
        return _TABLES[mn]
    dom = domains(mn)
    zero = {f: 0 for f in dom}
    base = rvref.enc32(*apimap.canonical(mn, zero))
    isU = rvref.fmt_of(mn) == 'U'

    def direct(f, v):
        z = dict(zero)
        z[f] = v - (1 << 20) if (isU and f == 'imm' and v >= 0x80000) else v
        return rvref.enc32(*apimap.canonical(mn, z)) ^ base

    tabs = {}
    for f, values in dom.items():
        if len(values) <= 5000:
            tabs[f] = {v: direct(f, v) for v in values}
            continue
        width = 20 if isU else 21
        bitc = []
        for i in range(width):
            v = 1 << i
            if v not in values:          # step-2 domains have no bit 0; the sign bit is reached as -2^(w-1)
                v = v - (1 << width) if (v - (1 << width)) in values else None
            if v is None:
                bitc.append(0)
                continue
            c = direct(f, v)
            if v < 0:                     # contribution of the sign bit alone: remove the other (all-one) upper bits
                c = direct(f, v)
            bitc.append(c)
        t = {}
        mask = (1 << width) - 1
        for v in values:
            u = v & mask
            c = 0
            i = 0
            while u:
                if u & 1:
                    c |= bitc[i]
                u >>= 1
                i += 1
            t[v] = c
        for i in range(3000):             # validate the shortcut against the oracle itself
            v = values[env.derive(11, mn, f, i) % len(values)]
            if t[v] != direct(f, v):
                raise env.HarnessError('bit-linear table for %s.%s disagrees with rvref.enc32 at %d' % (mn, f, v))
        for v in (values[0], values[-1], values[len(values) // 2], values[1], values[-2]):
            if t[v] != direct(f, v):
                raise env.HarnessError('bit-linear table for %s.%s disagrees with rvref.enc32 at %d' % (mn, f, v))
        tabs[f] = t
    _TABLES[mn] = (base, tabs)
    return base, tabs


def expected_word(mn, fields):
    f = dict(fields)
    fmt = rvref.fmt_of(mn)
    if fmt == 'U' and f['imm'] >= 0x80000:
        f['imm'] -= 1 << 20
    return rvref.enc32(*apimap.canonical(mn, f))


def describe(mn, fields, got):
    exp = expected_word(mn, fields)
    return ('%s %r encodes to 0x%08x which decodes to %r; the specification gives 0x%08x'
            % (mn, fields, got, rvref.dec32(got & 0xffffffff) if isinstance(got, int) else None, exp))


def sweep(mn, fixed, tier_fields):
    """Enumerate the product of tier_fields (dict field -> iterable), with `fixed` fields constant."""
    asm = env.load_asm()
    res = env.Result()
    fn = asm.INSTRUCTIONS[mn]
    names = apimap.api_fields(mn)
    base, tabs = contrib_tables(mn)
    is_a = rvref.fmt_of(mn) == 'A'
    var = [n for n in names if n not in fixed]
    n = 0
    nt = 0
    fixed_bits = base
    for k, v in fixed.items():
        fixed_bits |= tabs[k][v]
    doms = [list(tier_fields[k]) for k in var]
    tt = [tabs[k] for k in var]
    idx = {nm: i for i, nm in enumerate(names)}
    args = [fixed.get(nm) for nm in names]
    pos = [idx[k] for k in var]
    interior = {k: (lambda v, d=tier_fields[k]: v not in (0, 31, -1, 1) and v != d[0] and v != d[-1]) for k in var}
    for combo in itertools.product(*doms):
        exp = fixed_bits
        for t, v in zip(tt, combo):
            exp |= t[v]
        for p, v in zip(pos, combo):
            args[p] = v
        try:
            if is_a:
                got = fn(*args[:-2], aq=args[-2], rl=args[-1])
            else:
                got = fn(*args)
        except Exception:   # any exception is a refusal (today always ValueError)
            res.count('refused_in_domain:' + mn)
            n += 1
            continue
        n += 1
        if got != exp:
            f = dict(zip(names, args))
            why = describe(mn, f, got)
            res.fail('api:%s' % mn, why, {'kind': 'api', 'mn': mn, 'fields': f})
            if len(res.failures) > 4:
                break
    res.evaluations = n
    return res


def job_api(mn, fixed, fields_spec, seed):
    """fields_spec: field -> 'full' | list of values"""
    dom = domains(mn)
    tf = {}
    for k, spec in fields_spec.items():
        tf[k] = dom[k] if spec == 'full' else spec
    res = sweep(mn, fixed, tf)
    # non-trivial count: tuples with at least one interior operand value (exact arithmetic over the product)
    total, boring = 1, 1
    for k, vals in tf.items():
        vals = list(vals) if not isinstance(vals, range) else vals
        nb = sum(1 for v in (0, 31, -1, 1, dom[k][0], dom[k][-1]) if v in set((0, 31, -1, 1, dom[k][0], dom[k][-1])) and (v in vals))
        nb = len({v for v in (0, 31, -1, 1, dom[k][0], dom[k][-1]) if v in vals})
        total *= len(vals)
        boring *= nb
    res.nontrivial_count = max(0, total - boring) if res.evaluations else 0
    if res.evaluations:
        res.sample({'mnemonic': mn, 'fixed': fixed, 'swept': {k: ('full range' if v == 'full' else 'sample of %d' % len(v)) for k, v in fields_spec.items()}})
    return res


def job_beyond(mn):
    """Values just outside (and far outside) each operand's range: the encoder normally refuses them (C06 owns that); if it
    ACCEPTS one, the word cannot decode to the operand that was named - which is C01's business."""
    asm = env.load_asm()
    res = env.Result()
    dom = domains(mn)
    names = apimap.api_fields(mn)
    for k in names:
        d = dom[k]
        lo, hi = d[0], d[-1]
        step = d[1] - d[0] if len(d) > 1 else 1
        outside = [lo - i * step for i in range(1, 70)] + [hi + i * step for i in range(1, 70)]
        outside += [lo - (1 << j) for j in range(7, 34)] + [hi + (1 << j) for j in range(7, 34)]
        if rvref.fmt_of(mn) == 'CSR' and k == 'csr':
            outside = [v for v in outside if v > 4095 or v < -2048]   # negative / >= 0x800 CSR spellings are EITHER (C06)
        if mn == 'jalr' and k == 'imm':
            outside += list(range(-2047, 2048, 2))   # odd offsets: refused today; if accepted they must encode as named
        base_f = {o: dom[o][len(dom[o]) // 3] for o in names if o != k}
        for v in outside:
            f = dict(base_f)
            f[k] = v
            res.evaluations += 1
            try:
                got = apimap.call_encoder(asm, mn, f)
            except Exception:   # any exception is a refusal (today always ValueError)
                continue
            try:
                ok = got == expected_word(mn, f)
            except ValueError:
                ok = False
            if not ok:
                res.fail('api:%s:unrepresentable' % mn, '%s %r is accepted although %s=%r cannot be encoded; the word 0x%08x decodes to %r' % (
                    mn, f, k, v, got, rvref.dec32(got & 0xffffffff) if isinstance(got, int) else None), {'kind': 'api', 'mn': mn, 'fields': f})
            res.nontrivial_count += 1
    return res


def plan(tier, seed):
    jobs = []
    for mn in sorted(rvref.BASE):
        dom = domains(mn)
        names = apimap.api_fields(mn)
        if not names:
            jobs.append((mn, {}, {}, seed))
            continue
        if tier == 'thorough':
            first = names[0]
            if len(dom[first]) <= 32 and len(names) > 1:
                for v in dom[first]:
                    jobs.append((mn, {first: v}, {k: 'full' for k in names[1:]}, seed))
            else:
                jobs.append((mn, {}, {k: 'full' for k in names}, seed))
        else:
            # each field complete on its own while the others take boundary + drawn values
            def sample(k, cnt):
                d = dom[k]
                lo, hi = d[0], d[-1]
                step = d[1] - d[0] if len(d) > 1 else 1
                picks = {lo, hi, lo + step, hi - step, 0, step, -step} & set(d if not isinstance(d, range) else [x for x in (lo, hi, lo + step, hi - step, 0, step, -step) if x in d])
                if cnt < 6:
                    picks = set()
                i = 0
                while len(picks) < cnt and len(picks) < len(d):
                    picks.add(d[env.derive(seed, PROP, mn, k, i) % len(d)])
                    i += 1
                return sorted(picks)
            for k in names:
                if len(dom[k]) > 64:
                    others = {o: sample(o, 2 if len(dom[k]) > 100000 else 6) for o in names if o != k}
                else:
                    others = {o: sample(o, 12) for o in names if o != k}
                spec = dict(others)
                spec[k] = 'full'
                if len(dom[k]) > 100000:
                    onames = sorted(others)
                    for combo in itertools.product(*[others[o] for o in onames]):
                        jobs.append((mn, dict(zip(onames, combo)), {k: 'full'}, seed))
                else:
                    jobs.append((mn, {}, spec, seed))
    return jobs


# ---------------------------------------------------------------------------------------------------
# (b) text front end

def gen_lines(seed, count):
    """`count` instruction items as a pure function of one Hypothesis-drawn integer (bulk data rule of
    DESIGN.md 2.4: no RNG state outside the drawn value; a failing line is isolated by judge_text itself)."""
    import random
    rnd = random.Random(seed)
    mns = sorted(rvref.BASE)
    items = []
    for _ in range(count):
        mn = rnd.choice(mns)
        dom = domains(mn)
        ops = {}
        for k in apimap.api_fields(mn):
            d = dom[k] if k != 'csr' else dom[k][:0x800]   # documented CSR spelling range (>= 0x800 is EITHER, see C06)
            lo, hi = d[0], d[-1]
            step = d[1] - d[0] if len(d) > 1 else 1
            if rnd.randrange(3) == 0:
                v = rnd.choice([x for x in (lo, hi, lo + step, hi - step, 0, step, -step) if x in d])
            else:
                v = d[rnd.randrange(len(d))]
            if k in ('rd', 'rs1', 'rs2') and not (rvref.fmt_of(mn) == 'CSR' and k == 'rs1' and mn.endswith('i')):
                # one in ten registers is written through a register-alias constant (REG_n = xN, defined up front)
                ops[k] = ir.Reg(v, alias='REG_%d' % v if rnd.randrange(10) == 0 else None)
            elif k in ('succ', 'pred', 'aq', 'rl') or (rvref.fmt_of(mn) == 'CSR' and k == 'rs1'):
                ops[k] = v
            else:
                ops[k] = ir.Lit(v)
        items.append(ir.Insn(mn, ops, baseoff=bool(rnd.randrange(2))))
    return items, rnd.randrange(1, 2 ** 32)


ALIAS_PRELUDE = ''.join('REG_%d = x%d\n' % (i, i) for i in range(32))


def insn_lines(count):
    return st.integers(0, 2 ** 64 - 1).map(lambda s: gen_lines(s, count))


def judge_text(case, res):
    items, style = case
    asm = env.load_asm()
    st_ = ir.Style(style, kinds={'sep', 'reg', 'intbase', 'baseoff', 'indent'})
    src, _ = ir.render(items, st_)
    # one line in eight spells its mnemonic in UPPER or Capitalised case: not a documented freedom, but the assembler takes it -
    # and whatever it accepts must encode what the line says (a refusal would be fine and is only counted)
    import re
    cased = []
    for i, ln in enumerate(src.splitlines()):
        k = (style + i * 7) % 16
        if k < 2:
            ln = re.sub(r'^(\s*)(\S+)', lambda m: m.group(1) + (m.group(2).upper() if k == 0 else m.group(2).capitalize()), ln, count=1)
        cased.append(ln)
    src = '\n'.join(cased) + '\n'
    res.evaluations += len(items)
    try:
        out = bytes(asm.assemble(ALIAS_PRELUDE + src))
    except Exception as e:
        # some line is refused (acceptance is C06's business): judge the lines one by one instead
        res.count('text_batch_refused')
        lines = src.splitlines()
        for i, it in enumerate(items):
            try:
                o = bytes(asm.assemble(ALIAS_PRELUDE + lines[i] + '\n'))
            except Exception:
                res.count('text_line_refused:' + it.mn)
                continue
            f = {k: (v.n if isinstance(v, ir.Reg) else (v.value if isinstance(v, ir.Lit) else v)) for k, v in it.ops.items()}
            exp = expected_word(it.mn, f)
            if len(o) != 4 or struct.unpack('<I', o)[0] != exp:
                raise env.CaseFailure('text:%s' % it.mn, 'line %r -> bytes %s; the specification gives 0x%08x' % (lines[i], o.hex(), exp),
                                      {'kind': 'text', 'source': ALIAS_PRELUDE + lines[i] + '\n', 'line': lines[i]})
            res.nt(env.chash(lines[i]))
        return
    if len(out) != 4 * len(items):
        raise env.CaseFailure('text:length', 'output has %d bytes for %d instructions' % (len(out), len(items)),
                              {'kind': 'text', 'source': src})
    for i, it in enumerate(items):
        word = struct.unpack_from('<I', out, 4 * i)[0]
        f = {k: (v.n if isinstance(v, ir.Reg) else (v.value if isinstance(v, ir.Lit) else v)) for k, v in it.ops.items()}
        exp = expected_word(it.mn, f)
        if word != exp:
            line = src.splitlines()[i]
            raise env.CaseFailure('text:%s' % it.mn, 'line %r -> bytes %s (little-endian 0x%08x, decodes to %r); the '
                                  'specification gives 0x%08x' % (line, out[4 * i:4 * i + 4].hex(), word, rvref.dec32(word), exp),
                                  {'kind': 'text', 'source': ALIAS_PRELUDE + line + '\n', 'line': line})
        res.nt(env.chash(src.splitlines()[i]))
    if res.evaluations % 4000 < len(items):
        res.sample({'text': src.splitlines()[:4]})


def shard_text(n_programs, lines, shard):
    res = env.Result()
    env.run_hypothesis(judge_text, insn_lines(lines), n_programs, env.derive(env.seed_value(), PROP, 'text', shard), res,
                       env.load_known(), PROP, shrink=True)
    return res


def run(tier):
    chk = env.Check(PROP, tier)
    try:
        rvref.selftest()
        # the OR-decomposition used for speed must agree with rvref.enc32 itself
        for mn in sorted(rvref.BASE):
            base, tabs = contrib_tables(mn)
            dom = domains(mn)
            for i in range(40):
                f = {k: dom[k][env.derive(7, mn, k, i) % len(dom[k])] for k in dom}
                w = base
                for k, v in f.items():
                    w |= tabs[k][v]
                assert w == expected_word(mn, f), (mn, f)
    except AssertionError as e:
        raise env.HarnessError('oracle self test failed: %r' % (e,))
    jobs = plan(tier, chk.seed)
    for mn in sorted(rvref.BASE):
        contrib_tables(mn)       # built once here, inherited by the forked workers
    chk.merge(env.run_shards(job_api, jobs))
    chk.merge(env.run_shards(job_beyond, [(mn,) for mn in sorted(rvref.BASE) if apimap.api_fields(mn)]))
    api_evals = chk.res.evaluations
    n_text = {'quick': 100000, 'thorough': 3000000}[tier]
    lines = 200
    per = max(1, n_text // lines // env.NPROC)
    chk.merge(env.run_shards(shard_text, [(per, lines, s) for s in range(env.NPROC)]))
    c = chk.res.classes
    refused_lines = sum(v for k, v in c.items() if k.startswith('text_line_refused'))
    if refused_lines * 10 > n_text:
        raise env.HarnessError('text front end vacuity: %d of %d generated in-range lines were refused' % (refused_lines, n_text))
    chk.exhaustive = tier == 'thorough'
    chk.extra['api_tuples'] = api_evals
    chk.extra['text_lines'] = chk.res.evaluations - api_evals
    chk.rule = ('(a) encoder API: %s; a tuple is non-trivial when at least one operand is an interior value (not 0, 1, -1, '
                '31, min, max) - counted exactly over the enumerated product, distinct by construction; (b) %d generated '
                'source lines in random documented spellings, distinct by line text'
                % ('complete operand product of all 66 mnemonics' if tier == 'thorough' else
                   'each operand complete on its own, the others at boundary + seed-drawn values', n_text))
    chk.assumptions = ['rvref.enc32/dec32 written from the ISA manual; cross-checked once against the 685 pinned vectors of the repository tests (tools/oracle_crosscheck.py)',
                       'U-type immediates compared modulo 2^20 (both documented spellings)']
    return chk.finish()


def replay(path):
    with open(path) as f:
        body = json.load(f)
    case = body['case']
    asm = env.load_asm()
    why = None
    if case['kind'] == 'api':
        mn, f = case['mn'], case['fields']
        try:
            got = apimap.call_encoder(asm, mn, f)
        except Exception:   # any exception is a refusal (today always ValueError)
            got = None
        if got is not None:
            try:
                if got != expected_word(mn, f):
                    why = describe(mn, f, got)
            except ValueError:
                why = '%s %r accepted (0x%08x) although an operand cannot be encoded' % (mn, f, got)
    else:
        # single source line: compare with the expected word stored in the message is not possible without IR;
        # re-derive by decoding: the replay stores one line whose canonical tuple is re-parsed by rvref from text
        out = bytes(asm.assemble(case['source']))
        why = _replay_text_line(case.get('line', case['source']), out)
    if why:
        print('VIOLATION property=%s replay=%s' % (PROP, path))
        print('  ' + why)
        return env.EXIT_VIOLATION
    print('replay holds: %s' % path)
    return env.EXIT_OK


def _replay_text_line(line, out):
    """Own minimal reader for the canonical one-line sources this check writes (mnemonic + operands)."""
    import re
    toks = [t for t in re.split(r'[\s,()]+', line.split('#')[0].strip()) if t]
    mn = toks[0].lower()
    names = list(apimap.api_fields(mn))
    regmap = {('x%d' % i): i for i in range(32)}
    regmap.update({n: i for i, n in enumerate(ir.ABI)})
    regmap['fp'] = 8
    regmap.update({'REG_%d' % i: i for i in range(32)})

    def val(t):
        return regmap[t] if t in regmap else int(t, 0)
    vals = [val(t) for t in toks[1:]]
    if '(' in line:
        bo = {'lb': ('rd', 'imm', 'rs1'), 'lh': ('rd', 'imm', 'rs1'), 'lw': ('rd', 'imm', 'rs1'), 'lbu': ('rd', 'imm', 'rs1'),
              'lhu': ('rd', 'imm', 'rs1'), 'jalr': ('rd', 'imm', 'rs1'), 'sb': ('rs2', 'imm', 'rs1'), 'sh': ('rs2', 'imm', 'rs1'),
              'sw': ('rs2', 'imm', 'rs1')}
        names = list(bo[mn])
    f = dict(zip(names, vals))
    if rvref.fmt_of(mn) == 'A':
        f.setdefault('aq', 0)
        f.setdefault('rl', 0)
    word = struct.unpack_from('<I', out, 0)[0]
    exp = expected_word(mn, f)
    if word != exp:
        return 'line %r -> 0x%08x (decodes to %r); the specification gives 0x%08x' % (line.strip(), word, rvref.dec32(word), exp)
    return None
