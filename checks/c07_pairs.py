"""C07 part (b): %hi/%lo pairs through the text front end, decoded and executed by rvref."""
from hypothesis import strategies as st

from vlib import env, ir, progcheck, refwalk, rvref, strategies as S

PROP = 'C07'
M = 0xffffffff
N = {'quick': 1200, 'thorough': 40000}

UPPERS = [0, 1, 0x7ffff, 0x80000, 0xfffff, 0x7fffe, 0xffffe, 0x12345, 0x40021, 0x08000, 0x20000]
LOWS = [0, 1, 0x7ff, 0x800, 0x801, 0xfff, 0xffe, 0x7fe, 0x802]


@st.composite
def value32(draw):
    if draw(st.integers(0, 2)) == 0:
        v = draw(st.integers(0, M))
    else:
        v = draw(st.sampled_from(UPPERS)) << 12 | (draw(st.sampled_from(LOWS)) if draw(st.booleans()) else draw(st.integers(0, 0xfff)))
    if v >> 31 and draw(st.booleans()):
        v -= 1 << 32
    return v


@st.composite
def pair_programs(draw):
    nconst = draw(st.integers(0, 3))
    cnames = draw(st.permutations(S.CONST_NAMES))[:nconst]
    consts = []
    for n in cnames:
        consts.append(ir.ConstDef(n, value=ir.Lit(draw(value32()))))
    cvals = {c.name: c.value.value for c in consts}
    nlab = draw(st.integers(1, 3))
    labels = draw(st.permutations(S.LABEL_NAMES))[:nlab]
    npairs = draw(st.integers(1, 8))
    pairs = []
    for _ in range(npairs):
        kind = draw(st.sampled_from(['lui_addi', 'lui_lw', 'lui_sw', 'auipc_addi', 'auipc_jalr']))
        ek = draw(st.sampled_from(['lit', 'lit', 'const', 'const_arith', 'paren_arith', 'label', 'pos', 'pos']))
        if ek in ('const', 'const_arith') and not cvals:
            ek = 'lit'
        if ek == 'lit':
            e = ir.Lit(draw(value32()))
        elif ek == 'const':
            e = ir.CRef(draw(st.sampled_from(sorted(cvals))))
        elif ek == 'const_arith':
            e = ir.Bin(draw(st.sampled_from(['+', '-'])), ir.CRef(draw(st.sampled_from(sorted(cvals)))),
                       ir.Lit(draw(st.sampled_from([4, 0x800, 0x7ff, 0x1000, 2048, 1]))))
        elif ek == 'paren_arith':
            # grouping parentheses INSIDE the modifier that matter for precedence: %hi((K + 0x10) * 4), %lo(K - (0x700 - 0x80)), %hi(~(K | 3))
            k0 = ir.CRef(draw(st.sampled_from(sorted(cvals)))) if cvals and draw(st.booleans()) else ir.Lit(draw(st.sampled_from([0x20000000, 0x40021000, 0x7ff, 0x12345, 0x7ffff000])))
            shape = draw(st.integers(0, 2))
            if shape == 0:
                inner = ir.Bin('+', k0, ir.Lit(draw(st.sampled_from([0x10, 0x7f0, 1, 0x800]))))
                e = ir.Bin('*', ir.Paren(inner), ir.Lit(draw(st.sampled_from([2, 4]))))
            elif shape == 1:
                inner = ir.Bin('-', ir.Lit(0x700), ir.Lit(draw(st.sampled_from([0x80, 0x701, 1]))))
                e = ir.Bin('-', k0, ir.Paren(inner))
            else:
                e = ir.Bin('&', ir.Un('~', ir.Paren(ir.Bin('|', k0, ir.Lit(3)))), ir.Lit(0xffffffff))
        elif ek == 'label':
            e = ir.LRef(draw(st.sampled_from(labels)))
        else:
            base = draw(value32())
            e = ir.Pos(draw(st.sampled_from(labels)), ir.Lit(base))
        if kind == 'auipc_jalr' and not e.label_dep:
            # jalr offsets must be even (documented MO2): keep the literal/constant value even
            if isinstance(e, ir.Lit):
                e = ir.Lit(e.value & ~1)
            else:
                kind = 'auipc_addi'
        rd = draw(st.integers(1, 31))
        r2 = draw(st.integers(0, 31))
        pairs.append((kind, e, rd, r2))
    # layout, built front to back while tracking the PESSIMISTIC offset (the one early passes decide on): shrinking
    # items (li of a small value, compressible instructions, an align) first, then labels placed so that their
    # pessimistic offset sits on / next to a 2 KiB or 4 KiB boundary - the label then moves down when the items shrink
    items = list(consts)
    meta = []
    pess = 0
    placed = set()
    if draw(st.integers(0, 5)) == 0:
        # the very first byte of the program is a target too: a label whose value is 0 (round 8)
        items.append(ir.Label(labels[0]))
        placed.add(labels[0])
    nshrink = draw(st.integers(0, 3))
    for _ in range(nshrink):
        k = draw(st.integers(0, 2))
        if k == 0:
            items.append(ir.Pseudo('li', [ir.Reg(draw(st.integers(5, 15))), ir.Lit(draw(st.integers(-100, 100)))]))
            pess += 8
        elif k == 1:
            items.append(ir.Insn('addi', {'rd': ir.Reg(9), 'rs1': ir.Reg(9), 'imm': ir.Lit(1)}))
            pess += 4
        else:
            items += [ir.Seq('shorts', [1]), ir.Align(4)]
            pess += 6

    def emit_pair(p):
        nonlocal pess
        kind, e, rd, r2 = p
        first = 'lui' if kind.startswith('lui') else 'auipc'
        i0 = len(items)
        items.append(ir.Insn(first, {'rd': ir.Reg(rd), 'imm': ir.Hi(e)}))
        if kind.endswith('addi'):
            items.append(ir.Insn('addi', {'rd': ir.Reg(rd), 'rs1': ir.Reg(rd), 'imm': ir.Lo(e)}))
        elif kind.endswith('lw'):
            items.append(ir.Insn('lw', {'rd': ir.Reg(r2), 'rs1': ir.Reg(rd), 'imm': ir.Lo(e)}))
        elif kind.endswith('sw'):
            items.append(ir.Insn('sw', {'rs1': ir.Reg(rd), 'rs2': ir.Reg(r2), 'imm': ir.Lo(e)}))
        else:
            items.append(ir.Insn('jalr', {'rd': ir.Reg(r2), 'rs1': ir.Reg(rd), 'imm': ir.Lo(e)}))
        meta.append((i0, kind, e))
        pess += 8

    todo = list(pairs)
    for L in labels:
        if L in placed:
            continue
        while todo and draw(st.integers(0, 2)) == 0:
            emit_pair(todo.pop())
        target = draw(st.sampled_from([0x800, 0x1000, 0x1800, 0x2000, 0x3000, 0x7f8, 0xff8])) + draw(st.sampled_from([0, 0, 0, 2, -2, 4, -4, 8]))
        if draw(st.integers(0, 3)) == 0:
            target = pess + 2 * draw(st.integers(0, 40))
        gap = target - pess
        if gap > 0:
            gap -= gap % 2
            items.append(ir.Gap(gap))
            pess += gap
        items.append(ir.Label(L))
    for p in todo:
        emit_pair(p)
    prog = S.Program(items, ['pairs'], True)
    prog.meta = meta
    return prog


def judge_items(items, meta, res, count=True):
    asm = env.load_asm()
    prog = S.Program(items, ['pairs'], True)
    # half of the programs in the spelling alternatives that are not C13 rewrite kinds (%hi X without parentheses, blanks round operators ...)
    h = env.chash(prog.text())
    src = prog.text(ir.Style(1 + h[1] + 256 * h[2], kinds=set())) if h[0] % 2 else prog.text()
    for comp in (False, True):
        r = progcheck.assemble(asm, src, comp)
        if r[0] != 'ok':
            res.count('refused')
            # every pair here is written with in-range operands by construction; an odd label-dependent jalr
            # target is the only documented reason for a refusal
            msg = str(r[1])
            if 'multiple of 2' in msg:
                res.count('refused_odd_jalr')
            elif comp:
                res.count('refused_other_compress')   # acceptance under -c of what assembles without it is C12's business
            else:
                # "for every 32-bit value v, %hi(v) fits the 20-bit field and %lo(v) the signed 12-bit field": a pair written with
                # %hi/%lo of a 32-bit value cannot be out of range, whatever the spelling of the value
                raise env.CaseFailure('pair_refused:u', 'a program of %%hi/%%lo pairs over 32-bit values is refused without -c: %s\n%s' % (msg[-300:], src[:600]),
                                      {'kind': 'pairs', 'source': src, 'compress': comp, 'ir': progcheck.pack_prog(prog), 'meta': [(a, b) for a, b, _ in meta]})
            continue
        out = r[1]
        w, _amb = refwalk._segment(items, out, {})
        if not w.complete:
            raise env.CaseFailure('pair_walk:%s' % ('c' if comp else 'u'), 'output does not segment: %r' % (w.discs[:1],),
                                  {'kind': 'pairs', 'source': src, 'compress': comp, 'ir': progcheck.pack_prog(prog), 'meta': [(a, b) for a, b, _ in meta]})
        consts = ir.eval_consts(items)
        for (i0, kind, e) in meta:
            off0, sz0, ins0 = w.seg[i0]
            off1, sz1, ins1 = w.seg[i0 + 1]
            v = e.eval(ir.Ctx(consts, w.labels, off0)) & M
            a, b = ins0[0], ins1[0]
            why = None
            if a[5] is None or b[5] is None:
                why = 'pair does not decode: %r %r' % (a[2:4], b[2:4])
            else:
                for regs in rvref.probe_regfiles(3, salt=3):
                    r1, pc1, ev1 = rvref.step(regs, off0, a[5], a[1])
                    r2, pc2, ev2 = rvref.step(r1, pc1, b[5], b[1])
                    rd = a[5][1]['rd']
                    want = v if kind.startswith('lui') else (off0 + v) & M
                    if kind.endswith('addi'):
                        got = r2[rd]
                    elif kind.endswith('lw'):
                        got = ev2[0][2] if ev2 and ev2[0][0] == 'load' else None
                    elif kind.endswith('sw'):
                        got = ev2[0][2] if ev2 and ev2[0][0] == 'store' else None
                    else:
                        got, want = pc2, want & ~1
                    if got != want:
                        why = '%s of %s: pair addresses 0x%x, expression value is 0x%x (%s at offset %d: %r ; %r)' % (
                            kind, e.render(ir.Style(0)), got if got is not None else -1, want, 'pc-relative' if kind.startswith('auipc') else 'absolute', off0, a[5], b[5])
                        break
            if why:
                raise env.CaseFailure('pair_value:%s:%s' % (kind, 'c' if comp else 'u'), why,
                                      {'kind': 'pairs', 'source': src, 'compress': comp, 'ir': progcheck.pack_prog(prog), 'meta': [(a_, b_) for a_, b_, _ in meta]})
            if count:
                nt = bool(v & 0x800) or (v >> 12) in (0x7ffff, 0x80000, 0xfffff)
                res.count('pairs')
                if nt:
                    res.nt(env.chash((kind, repr(e.key()), v, comp)))
    if count and res.evaluations % 50 == 1:
        res.sample({'pairs_program': src[:500]})


def shard(n, shard_no):
    res = env.Result()
    known = env.load_known()

    def body(prog, r):
        r.evaluations += 1
        judge_items(prog.items, prog.meta, r)

    env.run_hypothesis(body, pair_programs(), n, env.derive(env.seed_value(), PROP, 'pairs', shard_no), res, known, PROP, shrink=True)
    return res


def run_into(chk, tier):
    per = max(1, N[tier] // env.NPROC)
    chk.merge(env.run_shards(shard, [(per, s) for s in range(env.NPROC)]))


def replay_case(case):
    items = progcheck.unpack_items(case['ir'])
    meta = []
    for i0, kind in case['meta']:
        hi = items[i0].ops['imm']
        meta.append((i0, kind, hi.v))
    try:
        judge_items(items, meta, env.Result(), count=False)
    except env.CaseFailure as cf:
        return cf.what
    return None
