"""C18 - a completed DFU run leaves the device flash equal to the firmware image."""
import json
import random

from hypothesis import strategies as st

from vlib import dfusim, env
from checks import _dfu

PROP = 'C18'
N = {'quick': 1600, 'thorough': 60000}
DELAYS = [0, 0, 1, 2, 5, 50, 100, 1000, 65535, 65536, (1 << 24) - 1]


def make_schedule(seed, density, pages, start_error):
    r = random.Random(seed)
    busy, idle = {}, {}
    for kind in ('erase', 'addr', 'write'):
        for k in range(pages):
            if r.random() < density:
                n = r.randrange(1, 5) if r.random() < 0.93 else r.choice([31, 32, 33, 34, 40, 100, 257])   # now and then a very slow operation
                busy[(kind, k)] = [r.choice(DELAYS) if r.random() < 0.7 else r.randrange(1 << 24) for _ in range(n)]
            if r.random() < density / 2:
                idle[(kind, k)] = r.choice(DELAYS[2:])
    s = {'busy': busy, 'idle_delay': idle}
    if r.random() < max(0.3, density):
        s['status_delays'] = [r.choice(DELAYS[2:]) for _ in range(r.randrange(1, 3))]   # delays on the initial status answers
    if start_error:
        s['start_error'] = start_error
    s['serial_suffix'] = r.choice(['J', 'J', 'B', '8', '6', '4', 'JB8', '4B6'])
    return s


@st.composite
def cases(draw):
    pc = draw(st.sampled_from([16, 32, 64, 128]))
    size = pc * 1024
    k = draw(st.integers(0, 6))
    if k == 0:
        n = draw(st.sampled_from([0, 1, 2, 1023, 1024, 1025, 2047, 2048, 2049]))
    elif k == 1:
        n = draw(st.integers(0, min(pc, 24))) * 1024 + draw(st.sampled_from([-1, 0, 1]))
        n = max(0, min(size, n))
    elif k == 2:
        n = size - draw(st.sampled_from([0, 1, 2, 1023, 1024, 1025]))
    elif k == 3:
        n = draw(st.integers(0, size))
    else:
        n = draw(st.integers(0, 6 * 1024))
    return {'pages': pc, 'n': n, 'fw_seed': draw(st.integers(0, 2 ** 32)), 'tail': draw(st.sampled_from([0, 0, 1, 2, 3])),
            'sched_seed': draw(st.integers(0, 2 ** 32)), 'density': draw(st.sampled_from([0.0, 0.1, 0.5, 1.0])),
            'start_error': draw(st.sampled_from([None, None, None, 10, 15, 4])), 'symlink': draw(st.integers(0, 3)) == 0}


def judge(c, res):
    res.evaluations += 1
    fw = _dfu.firmware(c['fw_seed'], c['n'], c['tail'])
    need = (c['n'] + 1023) // 1024
    sched = make_schedule(c['sched_seed'], c['density'], need + 2, c['start_error'])
    nbusy = sum(len(v) for (kind, k), v in sched['busy'].items() if k < need)
    with env.scratch_dir('bbv-c18-') as d:
        # (round 9) the device id is a pair of hexadecimal numbers: one run in three writes its letters in upper case
        r = _dfu.run(c['pages'], fw, sched, d, symlink=('dotdot' if c['sched_seed'] % 2 == 0 else True) if c.get('symlink', False) else False, device_id='28E9:0189' if c['sched_seed'] % 3 == 0 else '28e9:0189')
    dev = r['device']
    payload = {'kind': 'dfu', 'params': c}
    why = None
    sig = None
    if r['exit'][1] != 0 or r['exit'][0] not in ('return', 'exit'):
        why, sig = 'run against a healthy device ends with %r\n%s' % (r['exit'], r['out'][-300:]), 'exit'
    elif dev.violations:
        v = dev.violations[0]
        why = 'device-side invariant broken: %s (%d in total)' % (v, len(dev.violations))
        sig = 'invariant:' + ('busy' if 'left alone' in v else 'erase_before_write' if 'erased first' in v else 'address' if 'outside' in v or 'aligned' in v else 'protocol')
    else:
        flash = bytes(dev.flash)
        if flash[:c['n']] != fw:
            i = next(i for i in range(c['n']) if flash[i] != fw[i])
            why, sig = 'flash differs from the firmware at offset %d (0x%02x, firmware 0x%02x)' % (i, flash[i], fw[i]), 'image'
        elif flash[c['n']:need * 1024].strip(b'\0'):
            why, sig = 'padding of the last page is not zero', 'padding'
        elif flash[need * 1024:] != dev.initial[need * 1024:]:
            p = next(p for p in range(need, c['pages']) if flash[p * 1024:(p + 1) * 1024] != dev.initial[p * 1024:(p + 1) * 1024])
            why, sig = 'page %d lies outside the image but was erased or written' % p, 'other_pages'
        elif sorted(set(dev.touched_erase)) != list(range(need)) or sorted(set(dev.touched_write)) != list(range(need)):
            why, sig = 'erased pages %r / written pages %r, image needs pages 0..%d' % (sorted(set(dev.touched_erase))[:8], sorted(set(dev.touched_write))[:8], need - 1), 'other_pages'
        else:
            # every requested delay was waited for: the sleeps must cover the requested poll delays
            asked = sum(x[3] for x in dev.requests if x[0] == 'GETSTATUS') / 1000.0
            if r['clock'].now + 1e-6 < asked:
                why, sig = 'device asked for %.3fs of poll delays in total, host waited %.3fs' % (asked, r['clock'].now), 'invariant:busy'
    if why:
        raise env.CaseFailure(sig, why + '\n  pages=%d length=%d busy polls=%d start_error=%r' % (c['pages'], c['n'], nbusy, c['start_error']), payload)
    res.count('pages:%d' % c['pages'])
    res.count('runs_with_busy_polls' if nbusy else 'runs_without_busy_polls')
    if c['start_error']:
        res.count('start_in_error')
    if nbusy >= 1 and (c['n'] % 1024 or c['n'] == c['pages'] * 1024):
        res.nt(env.chash(sorted(c.items(), key=str)))
    if nbusy and c['n'] % 1024 and res.evaluations % 29 == 0:
        res.sample({'params': c, 'requests': len(dev.requests), 'virtual_seconds': round(r['clock'].now, 3)})


def shard(n, s):
    res = env.Result()
    env.run_hypothesis(judge, cases(), n, env.derive(env.seed_value(), PROP, s), res, env.load_known(), PROP, shrink=True)
    return res


def lengths_job(lo, hi):
    res = env.Result()
    for n in range(lo, hi):
        c = {'pages': 16, 'n': n, 'fw_seed': n, 'tail': n % 3, 'sched_seed': n, 'density': 0.1 if n % 5 == 0 else 0.0, 'start_error': None}
        try:
            judge(c, res)
        except env.CaseFailure as f:
            res.fail(f.sig, f.what, f.case)
    return res


OPT_CASES = [{'pages': pc, 'n': n, 'fw_seed': 7 * n + pc, 'tail': n % 3, 'sched_seed': n + pc, 'density': d, 'start_error': se, 'symlink': False}
             for pc, n, d, se in [(16, 0, 0.0, None), (16, 1, 0.0, None), (16, 1024, 0.5, None), (16, 1500, 0.5, 10), (16, 16384, 0.1, None), (16, 16383, 1.0, None),
                                  (32, 5000, 0.5, None), (32, 32768, 0.0, 15), (64, 40000, 0.1, None), (128, 131072, 0.0, None), (128, 70001, 0.5, 4),
                                  (64, 65535, 1.0, None)]]


def _opt_child():
    """Runs inside `python -O` (assert statements removed): a handful of fixed runs; prints the failures as JSON."""
    import sys
    bad = []
    res = env.Result()
    for c in OPT_CASES:
        try:
            judge(c, res)
        except env.CaseFailure as f:
            bad.append([f.sig, f.what, f.case])
    sys.stdout.write('OPTRESULT ' + json.dumps({'optimized': not __debug__, 'ran': res.evaluations, 'bad': bad}) + '\n')


def opt_job():
    """The flasher under PYTHONOPTIMIZE / python -O, a configuration users do run: behaviour must not hang on assert statements."""
    import os
    import subprocess
    import sys
    res = env.Result()
    root = os.path.dirname(os.path.dirname(os.path.abspath(__file__)))
    p = subprocess.run([sys.executable, '-O', '-W', 'ignore', '-c', 'from checks import c18; c18._opt_child()'], cwd=root,
                       env=dict(os.environ, PYTHONDONTWRITEBYTECODE='1'), stdout=subprocess.PIPE, stderr=subprocess.PIPE, timeout=600)
    line = [ln for ln in p.stdout.decode().splitlines() if ln.startswith('OPTRESULT ')]
    if p.returncode != 0 or not line:
        raise env.HarnessError('python -O child failed: rc=%d %s' % (p.returncode, p.stderr.decode()[-400:]))
    body = json.loads(line[0][len('OPTRESULT '):])
    if not body['optimized'] or body['ran'] != len(OPT_CASES):
        raise env.HarnessError('python -O child did not run optimized / did not run all cases: %r' % (body,))
    res.evaluations = body['ran']
    res.count('runs_under_python_-O', body['ran'])
    for sig, what, case in body['bad']:
        case = dict(case, optimize=True)
        res.fail('optimized:' + sig, 'under python -O: ' + what, case)
    return res


def run(tier):
    chk = env.Check(PROP, tier)
    _dfu.load_dfu()
    per = max(1, N[tier] // env.NPROC)
    chk.merge(env.run_shards(shard, [(per, s) for s in range(env.NPROC)]))
    chk.merge(env.run_shards(opt_job, [()]))
    if tier == 'thorough':
        step = 16385 // env.NPROC + 1
        chk.merge(env.run_shards(lengths_job, [(a, min(a + step, 16385)) for a in range(0, 16385, step)]))
    chk.rule = ('Hypothesis: bronzebeard.dfu.cli_main() in-process against a simulated DfuSe device (4 flash sizes; firmware length 0, 1, k*1024 '
                '+ {-1,0,1}, size - {0,1,...}, drawn; content PRNG(seed) with 0x00/0xff tails or a DFU file suffix as the last 16 bytes; per-operation busy schedules of 0-4 (now and then 31-257) dfuDNBUSY answers '
                'with poll delays 0..2^24-1 ms, delays on non-busy answers, device initially in dfuERROR, firmware path sometimes a symbolic link) with a virtual clock owned by the harness%s; plus 12 fixed runs in a `python -O` child process. '
                'oracle: flash[0:len] == image, rest of last page 0x00, all other pages untouched; erase-before-write, addresses inside flash, '
                'no request before a requested delay elapsed, DNLOAD only after the previous operation was polled to completion; exit status 0. '
                'non-trivial = run with >= 1 busy poll and a length that is not a multiple of 1024 or exactly the flash size; distinct by parameter tuple'
                % ('; plus every length 0..16384 on the 16 KiB variant' if tier == 'thorough' else ''))
    chk.assumptions = ['vlib/dfusim.py models DFU 1.1 + DfuSe (erase 0x41, set address 0x21, block write wValue=2) as the GD32 boot loader implements them']
    return chk.finish()


def replay(path):
    with open(path) as f:
        body = json.load(f)
    try:
        if body['case'].get('optimize'):
            r = opt_job()
            if r.failures:
                raise env.CaseFailure(r.failures[0]['sig'], r.failures[0]['what'], body['case'])
        else:
            judge(body['case']['params'], env.Result())
    except env.CaseFailure as cf:
        print('VIOLATION property=%s replay=%s' % (PROP, path))
        print('  ' + str(cf.what)[:1000])
        return env.EXIT_VIOLATION
    print('replay holds: %s' % path)
    return env.EXIT_OK
