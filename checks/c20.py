"""C20 - with -c every eligible instruction is compressed and nothing grows.

(a) eligibility, complete: for every LEGAL RV32C halfword h the base instruction expand16(h), written as text
    with literal operands (several spellings), assembled with -c must come out in 16 bits (and be
    effect-equal).  (b) monotonicity on generated programs: len(c) <= len(u), labels_c[L] <= labels_u[L].
"""
import json
import struct

from vlib import env, ir, progcheck, rvref, strategies as S
from checks import _prog

PROP = 'C20'
PROFILE = S.profile(p_compressible=0.7, w_labelval=3, w_li=5, w_calltail=3, w_group=2, w_align=3, w_data=3, n_items=(2, 36))
N = {'quick': 2400, 'thorough': 240000}


def base_text(base, variant):
    mn, f = base
    fmt = rvref.fmt_of(mn)
    cnt = [0]

    def r(n):
        # variant 2: the same register is spelled differently in each operand position (xN, ABI alias, number)
        if variant != 2:
            return 'x%d' % n
        cnt[0] += 1
        return ['x%d' % n, ir.ABI[n], str(n)][(cnt[0] + n) % 3]
    if fmt == 'R':
        return '%s %s, %s, %s' % (mn, r(f['rd']), r(f['rs1']), r(f['rs2']))
    if fmt == 'SHIFT':
        return '%s %s, %s, %d' % (mn, r(f['rd']), r(f['rs1']), f['shamt'])
    if fmt == 'I':
        if mn in ('lw', 'jalr') and variant % 2:
            return '%s %s, %d(%s)' % (mn, r(f['rd']), f['imm'], r(f['rs1']))
        return '%s %s, %s, %d' % (mn, r(f['rd']), r(f['rs1']), f['imm'])
    if fmt == 'S':
        if variant % 2:
            return '%s %s, %d(%s)' % (mn, r(f['rs2']), f['imm'], r(f['rs1']))
        return '%s %s, %s, %d' % (mn, r(f['rs1']), r(f['rs2']), f['imm'])
    if fmt == 'B':
        return '%s %s, %s, %d' % (mn, r(f['rs1']), r(f['rs2']), f['imm'])
    if fmt == 'U':
        imm = f['imm']
        if variant % 2 and imm < 0:
            imm += 1 << 20
        return '%s %s, %s' % (mn, r(f['rd']), hex(imm) if variant % 2 else str(imm))
    if fmt == 'J':
        return '%s %s, %d' % (mn, r(f['rd']), f['imm'])
    if fmt == 'SYS':
        return mn
    raise AssertionError(base)


def elig_job(lo, hi):
    a = env.load_asm()
    res = env.Result()
    todo = []
    for h in range(lo, hi):
        cls, mn, f = rvref.dec16(h)
        if cls == rvref.LEGAL:
            todo.append((h, mn, rvref.expand16(mn, f)))
    for variant in (0, 1, 2, 3):
        for i in range(0, len(todo), 800):
            chunk = todo[i:i + 800]
            lines = [base_text(b, variant) for _, _, b in chunk]
            if variant == 3:
                # the mnemonic in UPPER / Capitalised case (accepted like every keyword)
                lines = [(ln.split(' ', 1)[0].upper() if k % 2 else ln.split(' ', 1)[0].capitalize()) + (' ' + ln.split(' ', 1)[1] if ' ' in ln else '') for k, ln in enumerate(lines)]
            src = '\n'.join(lines) + '\n'
            res.evaluations += len(chunk)
            try:
                out = bytes(a.assemble(src, compress=True))
            except Exception as e:
                res.fail('elig:refused', 'batch of eligible instructions refused with -c: %s' % str(e)[-300:], {'kind': 'elig', 'source': src[:200]})
                continue
            off = 0
            for (h, cmn, base), line in zip(chunk, lines):
                ln, cls, mn, f, got = rvref.decode_at(out, off)
                if ln != 2:
                    res.fail('elig:%s' % cmn, '%r equals the expansion of %s (0x%04x) but is emitted in %d bytes with -c' % (line, cmn, h, ln),
                             {'kind': 'elig', 'source': line + '\n'})
                elif cls != rvref.LEGAL or (got != base and not rvref.same_effect(base, 2, got, 2)):
                    res.fail('elig:meaning:%s' % cmn, '%r compressed to 0x%04x = %s %r' % (line, out[off] | out[off + 1] << 8, cls, got),
                             {'kind': 'elig', 'source': line + '\n'})
                else:
                    res.nontrivial_count += 1
                off += ln if ln else 4
    if todo:
        res.sample({'eligible': base_text(todo[len(todo) // 2][2], 0), 'from': '0x%04x' % todo[len(todo) // 2][0]})
    return res


def pseudo_elig_job():
    """Pseudo-instructions with literal operands whose documented expansion is the expansion of a legal RVC
    instruction (nop, li with a 6-bit value, ret, jr, jalr) must come out in 16 bits too.  (`mv rd, rs` = `addi rd, rs, 0` is NOT
    in that set: c.mv expands to `add rd, x0, rs`; that the assembler compresses it anyway is an extra.)"""
    a = env.load_asm()
    res = env.Result()
    lines = ['nop', 'ret']
    for rd in range(1, 32):
        lines += ['jr x%d' % rd, 'jalr x%d' % rd]
        for v in (-32, -1, 0, 1, 5, 31):
            lines.append('li x%d, %d' % (rd, v))
    src = '\n'.join(lines) + '\n'
    res.evaluations = len(lines)
    try:
        out = bytes(a.assemble(src, compress=True))
    except Exception as e:
        res.fail('elig:pseudo:refused', 'batch of pseudo-instructions refused with -c: %s' % str(e)[-200:], {'kind': 'elig', 'source': src[:200]})
        return res
    off = 0
    for line in lines:
        ln, cls, mn, f, got = rvref.decode_at(out, off)
        if ln != 2:
            res.fail('elig:pseudo:%s' % line.split()[0], '%r expands to the expansion of a legal RVC instruction but is emitted in %d bytes with -c' % (line, ln),
                     {'kind': 'elig', 'source': line + '\n'})
        else:
            res.nontrivial_count += 1
        off += ln if ln else 4
    res.sample({'eligible_pseudo': lines[5]})
    # multi-instruction expansions: li with a literal beyond 12 bits is lui + addi; whichever of the two equals the expansion
    # of a legal RVC instruction (c.lui for an upper part in [-32, 31] \ {0} and rd not x0/x2; c.addi for a lower part in
    # [-32, 31] \ {0}) must be 16 bits.  Decoded sequentially: a 32-bit instruction in the eligible set is a miss.
    E = eligible_set()
    lines2 = []
    for rd in (1, 2, 5, 8, 10, 15, 16, 31):
        for hi in (1, 5, 31, 32, 0x12345, 0x7ffff, 0xfffe0, 0xfffff, 0x80000):
            for lo in (-2048, -33, -32, -1, 1, 5, 31, 32, 2047):
                lines2.append('li x%d, %d' % (rd, ((hi << 12) + lo) & 0xffffffff))
    res.evaluations += len(lines2)
    for k in range(0, len(lines2), 72):
        chunk = lines2[k:k + 72]
        try:
            out = bytes(a.assemble('\n'.join(chunk) + '\n', compress=True))
        except Exception as e:
            res.fail('elig:pseudo:refused', 'batch of li lines refused with -c: %s' % str(e)[-200:], {'kind': 'elig', 'source': chunk[0] + '\n'})
            continue
        off = 0
        while off < len(out):
            ln, cls, mn, f, base = rvref.decode_at(out, off)
            if not ln:
                break
            if ln == 4 and base is not None and (base[0], tuple(sorted(base[1].items()))) in E:
                res.fail('elig:pseudo:li:%s' % base[0], 'a li of the batch starting with %r leaves %s %r in 32 bits with -c although it equals the expansion of a legal '
                         'RVC instruction' % (chunk[0], base[0], base[1]), {'kind': 'elig', 'source': '\n'.join(chunk) + '\n'})
                break
            if ln == 2:
                res.nontrivial_count += 1
            off += ln
    return res


_ELIGIBLE = None


def eligible_set():
    """E = { expand16(h) : h a legal non-hint RV32C halfword }, as hashable keys."""
    global _ELIGIBLE
    if _ELIGIBLE is None:
        E = set()
        for h in range(0x10000):
            cls, mn, f = rvref.dec16(h)
            if cls == rvref.LEGAL:
                b = rvref.expand16(mn, f)
                E.add((b[0], tuple(sorted(b[1].items()))))
        _ELIGIBLE = E
    return _ELIGIBLE


def judge(prog, res):
    from vlib import refwalk
    a = _prog.get_asm()
    # half of the programs spell their integers in hex / binary (a number like 0xa then contains letters)
    h = env.chash(prog.text())
    src = prog.text(ir.Style(1 + h[1], kinds={'intbase'})) if h[0] % 2 else prog.text()
    res.evaluations += 1
    u = progcheck.assemble(a, src, False)
    c = progcheck.assemble(a, src, True)
    if u[0] != 'ok' or c[0] != 'ok':
        res.count('refused')
        return
    # eligibility in context: inside a whole program (labels, constants, aliases, label-dependent neighbours around it)
    # every real instruction whose operands do not depend on labels and which equals the expansion of a legal RVC
    # instruction must still come out in 16 bits
    w = refwalk.walk(prog.items, c[1], c[2], c[3])
    if not w.discs:
        E = eligible_set()
        for i, it in enumerate(prog.items):
            if it.kind == 'pseudo':
                # expansions of pseudo-instructions are instructions too ("two rounds so that expansions ... are also
                # considered"): with literal, position-independent operands every 32-bit instruction of the expansion
                # that equals the expansion of a legal RVC instruction is a missed compression
                if it.name in ('call', 'tail') or any(isinstance(o, str) or getattr(o, 'label_dep', False) for o in it.ops):
                    continue
                for (o_, ln_, cls_, mn_, f_, base_) in w.seg[i][2]:
                    if ln_ == 4 and base_ is not None and (base_[0], tuple(sorted(base_[1].items()))) in E:
                        one = it.render(ir.Style(0))
                        raise env.CaseFailure('elig:context:pseudo:%s' % it.name, 'the expansion of %r contains %s %r in 32 bits although it has literal operands and equals '
                                              'the expansion of a legal RVC instruction\n%s' % (one, base_[0], base_[1], src[:700]), progcheck.case_of(prog, True))
                    res.count('pseudo_expansion_insns_in_context')
                continue
            if it.kind != 'insn' or it.mn.startswith('c.'):
                continue
            if any(getattr(o, 'label_dep', False) for o in it.ops.values()):
                continue
            off, sz, insns = w.seg[i]
            try:
                base, _ = refwalk.expected_base(it, ir.Ctx(w.consts, w.labels, off))
            except KeyError:
                continue
            if (base[0], tuple(sorted(base[1].items()))) in E:
                res.count('eligible_in_context')
                if sz != 2:
                    one = it.render(ir.Style(0))
                    raise env.CaseFailure('elig:context:%s' % it.mn, '%r has literal operands and equals the expansion of a legal RVC instruction but is emitted in %d bytes '
                                          'inside this program\n%s' % (one, sz, src[:700]), progcheck.case_of(prog, True))
    if len(c[1]) > len(u[1]):
        raise env.CaseFailure('grows:length', 'binary is %d bytes with -c and %d without' % (len(c[1]), len(u[1])), progcheck.case_of(prog, True))
    for L, v in u[2].items():
        if c[2].get(L, v) > v:
            raise env.CaseFailure('grows:label', 'label %s is at %d with -c and at %d without' % (L, c[2][L], v), progcheck.case_of(prog, True))
    first_label = min(u[2].values()) if u[2] else None
    if any(c[2][L] < v for L, v in u[2].items() if L in c[2]):
        res.nt(env.chash(src))
        res.count('shrinks_before_label')
    if res.evaluations % 101 == 1:
        res.sample({'bytes': [len(u[1]), len(c[1])], 'source': src[:400]})


def run(tier):
    chk = env.Check(PROP, tier)
    try:
        rvref.selftest()
    except AssertionError as e:
        raise env.HarnessError('rvref self test failed: %r' % (e,))
    chk.merge(env.run_shards(elig_job, [(a, a + 1024) for a in range(0, 0x10000, 1024)]))
    chk.merge(env.run_shards(pseudo_elig_job, [()]))
    elig = chk.res.evaluations
    progcheck.run_sharded(chk, PROP, PROFILE, N[tier], 'judge', __name__)
    chk.exhaustive = True
    chk.extra['eligibility_lines'] = elig
    chk.extra['monotonicity_programs'] = chk.res.evaluations - elig
    chk.rule = ('(a) complete: the expansion of each of the 28,461 legal non-hint RV32C halfwords written as text with literal '
                'operands in four spellings (reg, imm / imm(reg); signed / unsigned upper immediate; registers as xN / ABI alias / number mixed; mnemonic in upper / capitalised case '
                'within one instruction), assembled with -c, must be '
                '16 bits and effect-equal - every element is non-trivial, distinct by construction; (b) Hypothesis IR programs: '
                'len and every label with -c <= without, and every literal-operand instruction of the program whose meaning is in that set is 16 bits '
                '(eligibility in context; the same for each instruction of the expansion of a pseudo-instruction with literal operands, and for a grid of li values whose upper / lower part sits on both sides of the c.lui / c.addi ranges); non-trivial = -c moves some label down; distinct by source')
    return chk.finish()


def replay(path):
    with open(path) as f:
        body = json.load(f)
    if body['case'].get('kind') == 'elig':
        a = env.load_asm()
        try:
            out = bytes(a.assemble(body['case']['source'], compress=True))
            E = eligible_set()
            bad, off = False, 0
            while off < len(out) and not bad:
                ln, cls, mn, f, base = rvref.decode_at(out, off)
                bad = not ln or (ln == 4 and base is not None and (base[0], tuple(sorted(base[1].items()))) in E)
                off += ln
        except Exception:
            bad = True
        if bad:
            print('VIOLATION property=%s replay=%s' % (PROP, path))
            return env.EXIT_VIOLATION
        print('replay holds')
        return env.EXIT_OK
    return progcheck.replay_program(path, judge)
